#!/bin/bash
# usage: confirm_seed.sh <dir containing patch.diff + demo.diff>
# Confirms in a scratch worktree of /repo HEAD: (1) patch compiles and the existing suite passes,
# (2) demo passes without the patch, (3) demo fails with the patch.  Prints a one-line JSON verdict.
d=$(realpath $1)
wt=/tmp/wt-confirm-$$
git -C /repo worktree add -q --detach $wt HEAD || exit 2
cp /repo/Cargo.lock $wt/ 2>/dev/null
cd $wt
export CARGO_NET_OFFLINE=true CARGO_TARGET_DIR=/tmp/wt-confirm-target
res() { cargo test --offline --lib 2>&1 | grep "test result" | head -1; }
git apply $d/patch.diff || { echo '{"ok":false,"why":"patch does not apply"}'; cd /; git -C /repo worktree remove --force $wt; exit 1; }
b1=$(cargo build --offline 2>&1 | tail -1); b2=$(cargo build --offline --no-default-features 2>&1 | tail -1)
r_patch=$(res)
git apply $d/demo.diff || { echo '{"ok":false,"why":"demo does not apply on patch"}'; cd /; git -C /repo worktree remove --force $wt; exit 1; }
r_both=$(res)
git checkout -q -- . ; git clean -fdq
git apply $d/demo.diff
r_demo=$(res)
cd /; git -C /repo worktree remove --force $wt
echo "patch_only: $r_patch"
echo "demo_only:  $r_demo"
echo "patch+demo: $r_both"
echo "builds: $b1 | $b2"
