#!/usr/bin/env python3
"""Single source for MANIFEST.json and plan.json (run after editing: python3 gen.py)."""
import json, os
ROOT = os.path.dirname(os.path.abspath(__file__))

COMMON_ASSUME = [
    "verdict is about the executions produced in this run (seeded random histories plus the enumerated sub-spaces named in 'rule'); nothing is claimed about paths not driven",
    "the reference devices / register tables / spec predicates in /verif/harness are transcriptions of the VirtIO 1.2 specification made for this harness (trusted base)",
    "hardware memory ordering, caches and real interrupt delivery are not observable; program order of device-visible stores is observed through the cfg(virtio_drivers_verif) hooks",
]

def stage(build, shards=16, scale=1000, timeout=3600, optional=False):
    d = {"build": build, "shards": shards, "scale": scale, "timeout": timeout}
    if optional:
        d["optional"] = True
    return d

# property -> description
P = {}

def prop(pid, level, technique, text, note, rule, quick, thorough, assumptions=(), design="§4", sanitizer_is_violation=False):
    P[pid] = dict(level=level, technique=technique, text=text, note=note, rule=rule, quick=quick, thorough=thorough,
                  assumptions=COMMON_ASSUME + list(assumptions), design=design, sanitizer_is_violation=sanitizer_is_violation)

QRULE = ("a case is one seeded random history (50..2000 steps; every ~24th case a 200k..500k-step run across the 16-bit index wrap) of add / device fetch / "
         "device completion (any order, batched, inside the driver's load hooks) / pop with right and wrong tokens / queries / capacity probe + drain on one freshly "
         "created VirtQueue; queue size drawn from all 16 powers of two 1..32768, the 16 flag combinations indirect x event_idx x access_platform x legacy-layout "
         "enumerated by case number. Non-trivial iff the history contained a chain of >= 2 buffers, an out-of-order completion and a reused descriptor and was fully "
         "drained; distinct by 64-bit hash of (configuration, operation list). ")

prop("C01", "exploration", "reference-device chain validation over random histories (runtime monitor on hooked real code)",
     "Every chain published by the real VirtQueue is re-read from device-visible memory by a reference split-virtqueue device and compared with the buffers the caller passed "
     "(addresses = what the instrumented Hal returned from share), together with ring slot, index step and a descriptor-ownership map; re-validated again when the device fetches it. "
     "Exploration is the right level: the statement quantifies over unbounded histories, which a monitor samples.",
     "LedgerHal (bounce buffers, synthetic addresses), ModelTransport and the reference device are harness code; histories are sampled, sizes and flag combinations are all visited.",
     QRULE + "Oracle events counted in observed.chains_validated / descriptors_validated / chains_fetched.",
     [stage("checked")], [stage("checked", scale=1500, timeout=2400), stage("asan", scale=80, optional=True, timeout=2400), stage("miri", scale=1000, optional=True, timeout=3600)])

prop("C02", "exploration", "store-hook monitor: reference device re-validates all visible entries after every device-visible store",
     "After every store the library makes to device-visible queue memory (cfg hook) the reference device reads the available index from memory and validates every entry below it that it has "
     "not completed, plus ring slots of unfetched entries; index monotonicity and 'index store is the last store of a submission' are checked on the same event stream.",
     "Program order of stores is observed (opaque hook call = compiler barrier); the hardware fence itself is not observable on x86 nor under Miri (stated limit).",
     QRULE + "Here N <= 64 and every store-hook instant is an observation point (observed.hook_observations, hook_chain_validations).",
     [stage("checked"), stage("miri-race", scale=1000, timeout=1800)],
     [stage("checked", scale=4000, timeout=2400), stage("miri-race", scale=10000, timeout=3600), stage("miri", scale=1000, optional=True, timeout=3600)])

prop("C03", "exploration", "lock-step sequential reference ring (executable model) compared on every API return value",
     "Return values of add/pop_used/peek_used/can_pop/available_desc are compared with a ~60-line sequential model of the ring; failed polls must leave ledger, device-visible memory and "
     "capacity unchanged; a capacity probe at the end of every history measures the free-descriptor count behaviourally; long runs cross the 16-bit index wrap several times.",
     "available_desc() in indirect mode is only required to be 0 iff full (documented library behaviour); model evaluated at the instant of the driver's index load when the device completes inside load hooks.",
     QRULE + "Oracle events: observed.pops_attempted / pops_wrong_token / pops_not_ready / queries / capacity_probes; cases_index_wrap counts histories longer than 65536 submissions.",
     [stage("checked")], [stage("checked", scale=700, timeout=2400), stage("asan", scale=25, optional=True, timeout=2400), stage("miri", scale=1000, optional=True, timeout=3600)])

prop("C04", "exploration", "instrumented Hal ledger (share/unshare matching, bounce buffers) + data-timing canaries",
     "The Hal handed to the library bounces every buffer to a distinct synthetic address and matches every unshare against its share on address, range, direction and access_platform; "
     "writable caller buffers carry a canary until the completion is consumed and must hold the device's unique pattern right after; the reference device can only resolve addresses obtained from share or dma_alloc.",
     "Bounce mode only (virtual and device addresses never coincide); leak audit only after fully drained histories.",
     QRULE + "Oracle events: ledger share/unshare matches (every add/pop), observed.bytes_checked = device-written bytes compared in caller buffers.",
     [stage("checked")], [stage("checked", scale=1500, timeout=2400), stage("asan", scale=80, optional=True, timeout=2400), stage("miri", scale=1000, optional=True, timeout=3600)])

prop("C05", "exploration", "spec-predicate monitor on real should_notify() calls (index space enumerated by running) + spin-hook co-simulation of blocking helpers",
     "(a) one real add sequence and one real should_notify() call per (previous index, new index, device event index) instance, compared with the specification's vring_need_event / NO_NOTIFY flag; "
     "every new-index value x batch 1..12 (quick) / 1..32 (thorough) x every event index inside the batch is visited, larger batches up to 32768 are sampled across the wrap; "
     "(b) avail.flags and used_event are read back by the reference device after every set_dev_notify / consumed completion in random histories; "
     "(c) add_notify_wait_pop runs against serve-on-notify / polling-with-suppression / late devices from the spin hook, where 'device idle and never notified' is decided on logical state.",
     "Only the direction the property states is asserted in event-idx mode (needed => notify); extra notifications are counted. 'Returns as soon as served' is restated as: no further spin-hook round after the device published the completion. Driver-level blocking helpers (blk/net/console/vsock/sound) are exercised in their own checks with the same spin monitor.",
     "a case is (i) one sweep instance = (queue size, batch b, event offset k, starting index) with real adds and a real check, keyed per pass by (N,b,k) [each pass = up to 65536 instances covering every index value]; "
     "(ii) one qcore history with frequent should_notify/set_dev_notify checks; (iii) one blocking-helper co-simulation of 40 checked requests after 0..131072 warm-up requests under one policy; (iv) one driver-level history of the C14/C15/C16/C17/C20 workloads (blk, console, net receive_wait, vsock wait_for_event, sound pcm_xfer and the request/response drivers) whose device personalities flag 'driver spins while the device is idle and was never notified', incl. devices that poll at first and switch to serve-on-notify mid-operation. "
     "Non-trivial: (i) the spec predicate says a notification is needed (observed.eventidx_needed), (ii) at least one real check happened, (iii) every request was served and checked. distinct = distinct pass keys + history hashes + blocking case keys.",
     [stage("checked")], [stage("checked", scale=4000), stage("release", scale=500), stage("miri", scale=1000, optional=True, timeout=7200)])

prop("C06", "exploration", "ledger + transport-log monitor over the exhaustively enumerated configuration space",
     "All 3072 configurations (16 sizes x modern/legacy x 8 flag combinations x queue_used T/F x 6 max-size answers) are executed on every run: the arguments of queue_set are checked against the "
     "specification's sizes/alignments and the instrumented Hal's live-region table (containment, direction, disjointness, zeroed rings, legacy contiguity), refusals must be free of dma_alloc/queue_set, and after light use "
     "(recycled descriptors, sometimes a chain left outstanding) dropping the queue must return every DMA region exactly once with its original address, pointer and page count.",
     "Exhaustive over the stated configuration space (coverage.exhaustive = true); the post-creation usage before drop is a small random script. Legacy layout through the real legacy MmioTransport is additionally exercised by C10.",
     "a case is one configuration (size, layout, indirect, event_idx, access_platform, transport answer to queue_used, transport answer to max_queue_size, queue index); always non-trivial (creation or refusal is reached); distinct by configuration index. All 3072 are run.",
     [stage("checked")], [stage("checked"), stage("release"), stage("asan", optional=True), stage("miri", optional=True, timeout=7200)])

prop("C10", "exploration", "MMIO bus trace (safe-mmio custom-mmio backend) checked per transport operation by a register-level reference device",
     "Every MMIO load/store of the real MmioTransport (also wrapped in SomeTransport) is served by a register-level virtio-mmio model that never uses backing memory as the register file, so wrong offset, width, "
     "direction, order and value are all observable; each Transport operation is run alone and its access list is checked against per-operation rules (allowed registers, queue selected first, low/high words, "
     "ready/PFN written last, read-back of QueueReady=0, Status=0 as the last access on drop) and its result against the device state; probing is checked on random headers x region sizes (acceptance iff magic, version, known device id, size >= 0x100; no writes).",
     "The register table (DESIGN Appendix A) is a transcription of VirtIO 1.2 §4.2.2/§4.2.4 (trusted base). A ConfigGeneration read on a legacy device is tolerated and counted. Rules are rule-based (what must precede what), not trace equality, where the specification leaves order open.",
     "a case is (i) one MmioTransport (legacy or modern, direct or via SomeTransport, random device id / features) driven through 60 random Transport operations with random queue indices {0,1,7,0xffff,..}, sizes 2^0..2^15, 64-bit address triples with bits 31/32/63 forced, "
     "feature words, status and interrupt values (one legacy queue_set in eight lies outside the 32-bit page-frame range: the transport may refuse, but must never write QueuePFN), or (ii) one probe of a random header (magic/version/device id drawn from {correct, +-1, 0, all-ones, random, byte-swapped}) with region size in {0,4,0xfc,0xff,0x100,0x101,0x200,0x1000}. "
     "Non-trivial: at least one bus access or a refusal was observed (always). distinct: 64-bit content fingerprint of every value the generator handed out for the case (device, operations, arguments; header fields and region size for probes), so probes drawn from the small value sets collapse onto each other; counts of checked operations per kind are in observed.op_*.",
     [stage("checked", scale=8000)], [stage("checked", scale=200000), stage("release", scale=20000)])

prop("C12", "exploration", "reference PCI function model behind ConfigurationAccess logging every config read/write with the decode state; exhaustive CAM address enumeration",
     "bar_info/bars run against a PCI function model with per-BAR writable-bit masks, hard-wired type bits, 64-bit pairs and a command register with a write mask; the model flags any BAR write that changes the assigned value while the matching decode bit is set, "
     "and command and all six BAR registers are compared with their original values after every call; results are compared with the BAR the model was built from. cam_offset is enumerated over all 4,194,304 tuples x 2 mechanisms (formula, range, alignment, injectivity bitmap) and through the real MmioCam on the MMIO bus; "
     "enumerate_bus and capabilities() are compared with randomly populated buses / well-formed capability lists.",
     "BAR sizes, addresses and bus populations are sampled (every slot, every power-of-two size class, all 2^10 combinations of the defined command bits by case number, plus functions that implement command bit 7); cyclic capability lists are not generated. Upper halves of 64-bit BARs are never queried directly (caller contract of bars()).",
     "a case is (i) one PCI function with six generated BARs (unimplemented / mem32 / below-1MiB / mem64 up to 2^63 / I/O 32- and 16-bit decode / reserved type, 64-bit in slot 5) and an initial command value, probed with bar_info on every slot or with bars(); "
     "(ii) one capability list (0..12 entries) + one bus population (random subset of 256 functions with random identity fields); (iii) one MmioCam (CAM or ECAM) exercised with 64 register reads; (iv) one exhaustive cam_offset enumeration per mechanism. "
     "Non-trivial: always (a result or a refusal is compared). distinct: 64-bit content fingerprint of every value the generator handed out for the case (plus the enumerated initial command bits).",
     [stage("checked", scale=8000)], [stage("checked", scale=200000), stage("release", scale=20000)])

prop("C11", "exploration", "independent reference parser (128-bit arithmetic) over generated PCI configuration spaces + MMIO bus trace of every later access",
     "PciTransport::new runs on generated configuration spaces (through a model ConfigurationAccess and through the real MmioCam on the bus). An independent reference parser decides, in 128-bit arithmetic, which window each capability type must yield or that construction must fail; "
     "the windows actually chosen are observed as the (address, size) pairs the transport asks the platform to map (mmio_phys_to_virt), which must equal the reference windows and lie inside an allocated memory BAR. "
     "Accepted transports are then driven through random Transport operations with the four windows served by a register-level virtio-pci model (field offsets/widths of virtio_pci_common_cfg, queue_select first, queue_enable last, notify address = queue_notify_off x multiplier as a 16-bit write, "
     "reset write followed by status reads until the device reports 0 after 0..5 busy reads); any access outside the windows is a violation.",
     "Soundness (Ok => windows valid and equal to the reference) is asserted for every space; completeness (valid => Ok) only for the canonical QEMU-like layout. Capabilities that do not fit in the 256-byte space or name a reserved BAR number are ignored by the reference (VirtIO 1.2 4.1.4). "
     "queue_notify_off is kept inside the notify window (a well-formed device); cyclic capability lists are not generated; operations are skipped when hostile-but-valid windows overlap each other.",
     "a case is one generated configuration space: canonical (1/4), canonical with 1..3 hostile mutations (1/2: duplicated capabilities before/after, hostile offset/length/bar/cap_len/multiplier, BAR unallocated or turned into an I/O BAR, list bit cleared), or fully hostile (1/4: 0..8 capabilities of types 0..255 in random order, "
     "cap_len in {0,15,16,19,20,24}, offsets/lengths from {0, small, BAR size -1/0/+1, 2^31, 2^32-1, pairs summing to >= 2^32}, BARs 32/64-bit/I-O/unallocated/unimplemented up to 2^63, capability structures at the very end of configuration space), followed by 40 checked operations and a checked drop when construction succeeds. "
     "Non-trivial: always (construction reached Ok or Err and was compared with the reference). distinct: 64-bit content fingerprint of every value the generator handed out for the case (the configuration space and the operations).",
     [stage("checked"), stage("release", scale=500)], [stage("checked", scale=60000), stage("release", scale=15000)])

prop("C13", "exploration", "MMIO bus trace per configuration access (bounds, exact bytes) + versioned configuration store with scheduler-controlled updates between individual reads",
     "(a) every read/write_config_space call on the real MMIO (legacy and modern) and PCI transports is judged from the bus trace: in-window accesses must return Ok and touch exactly the bytes of the field once, everything else must return the too-small / missing error with no access at all (offset + size evaluated without wrap-around), in both the overflow-checked and the plain release profile; "
     "(b) the five drivers with multi-field configuration reads are constructed while a scheduler bumps configuration version + generation before chosen individual accesses; every version has unique field values, so the reported capacity / CID / console size / MAC / mount tag must equal the value of one single exposed version.",
     "Misaligned offsets hit a documented assert: 'panic or error, no access' is accepted. On PCI completeness is required only inside the window rounded down to whole 32-bit words (the transport models the window as [u32]); soundness against the true window. At most 12 updates per construction, so the 8-bit PCI generation cannot wrap (no ABA).",
     "a case is (i) one (transport, window size) sweep: 6 field types x offsets 0..=W+8 and {2^31, 2^32-4, 2^32, 2^63, usize::MAX-7..=usize::MAX} x read/write, for W in {0,1,2,3,4,6,8,10,64,4096} on MMIO modern, MMIO legacy and PCI; (ii) one driver construction (blk, vsock, console+size(), net, 9p) on one of 4 transports with one placement of configuration updates: "
     "every subset of size 1..3 of the first n+4 configuration accesses (n = accesses of an undisturbed construction) plus random schedules of up to 12 updates. Non-trivial: always (an access was judged / a multi-field value was compared against the exposed versions). distinct: key of (transport, window) resp. (driver, transport, schedule).",
     [stage("checked"), stage("release")], [stage("checked"), stage("release")])

DRV_NOTE = "The reference device follows the specification (it only reads what it is entitled to, serves by its notification policy, completes in an order the workload chooses); the harness is a well-behaved caller (documented preconditions respected). Register-level checkers of the real transports stay active and report under C10/C11."

prop("C14", "exploration", "reference block device (sparse in-memory disk) parsing every request chain + differential comparison of disk and caller buffers",
     "The real VirtIOBlk runs on the model transport and on the real MMIO (legacy/modern, SomeTransport) and PCI transports against a reference disk that validates and parses every chain ([16-byte header][data][1-byte status], type, sector, directions), executes it on a sparse sector map and logs it; "
     "after every API call the workload compares what the device saw (type, sector, length, data hash) with the call's arguments, the returned bytes with the disk, the disk with the written bytes, and the result with the status the device chose for that request. Non-blocking requests are kept outstanding up to a queue-full and completed in random order.",
     DRV_NOTE + " Blocking helpers are only used when nothing else is in flight (documented assumption of add_notify_wait_pop).",
     "a case is one VirtIOBlk instance (transport in {model, model-legacy, MMIO modern/legacy, SomeTransport(MMIO), PCI}; offered features: all 16 subsets of {RO, FLUSH, INDIRECT_DESC, EVENT_IDX} by case number plus random unsupported bits; capacity in {0,1,2048,2^32,2^32+5,2^64-1}; device notification policy serve-on-notify / polling+suppression / eager) driven through 300 (thorough 600) steps of "
     "read/write of 1..8 sectors at sectors incl. 0, 2^32, 2^63, flush, device_id, device statuses {OK, IOERR, UNSUPP, 3, 0xff}, non-blocking submissions (bursts up to queue-full), completions in random order with wrong-token probes, interrupt acknowledgement. "
     "Non-trivial iff at least 2 non-blocking requests were outstanding at once and at least one request completed with its data checked; distinct by hash of (configuration, operation list).",
     [stage("checked", scale=8000)], [stage("checked", scale=12000), stage("asan", scale=1500, optional=True), stage("miri", optional=True, timeout=3600)])

prop("C15", "exploration", "reference console device feeding a position-coded byte stream; every byte returned by the public API identifies its stream position",
     "The real VirtIOConsole runs against a reference console whose receive stream is a function of the byte position, so any byte the API returns is checked against exactly the position it must have (loss, duplication and reordering all show as a mismatch); "
     "the device counts outstanding receive chains at every observation point (API boundaries, spin hooks, load hooks) and compares 'bytes delivered' with 'bytes consumed' at the instant a new receive chain appears; every transmit chain is compared byte-wise with the caller's buffer; a final drain through read() must return everything delivered.",
     DRV_NOTE + " Liveness of polling recv() alone after a bulk read is not part of the (safety) statement.",
     "a case is one VirtIOConsole (transport model / model-no-unset / MMIO modern / MMIO legacy / PCI; INDIRECT_DESC x EVENT_IDX by case number; device policy serve-on-notify / polling / eager) driven through 600 (thorough 2000) API calls drawn from recv(peek), recv(pop), read (sizes 0,1,..600,4096,5000), fill_buf+consume, read_ready, ack_interrupt, send, send_bytes, embedded_io::Write, "
     "with device chunks of 1..4096 bytes delivered at API boundaries, inside wait loops (spin hook) and inside the driver's used-index loads (dma hook). Each shard adds one long-transmit run (70000 single-byte sends to a serve-on-notify device, ring-feature combination = shard mod 4) so that the transmit index passes 0x8000 and wraps. Non-trivial iff at least one received byte was checked; distinct by hash of (configuration, operation list).",
     [stage("checked", scale=8000)], [stage("checked", scale=17000), stage("asan", scale=1500, optional=True), stage("miri", optional=True, timeout=3600)])

prop("C16", "exploration", "reference network device with uniquely numbered frames + receive-buffer ownership ledger (conservation check at every quiescent point)",
     "Both network drivers run against a reference NIC: every transmit chain is compared byte-wise with [zeroed header of the negotiated size][caller's frame] (raw transmit_begin: the caller's buffer verbatim); the device injects uniquely numbered frames of every length into posted buffers in arbitrary order and the driver's result is compared byte-wise; "
     "at every quiescent point posted + completed-unreceived + caller-owned buffers must equal QUEUE_SIZE, no two active shares may overlap (a buffer posted twice), can_recv/can_send/poll_* must agree with the queue state, and after recycling everything exactly QUEUE_SIZE buffers must be posted.",
     DRV_NOTE + " Buffer lengths respect the documented minimum (1526 bytes after rounding to whole words).",
     "a case is one driver instance (VirtIONet or VirtIONetRaw; QUEUE_SIZE in {2,4,16}; with/without VERSION_1 => 12/10-byte header; INDIRECT_DESC x EVENT_IDX; random unsupported offload bits offered; transport model / model-legacy / MMIO modern / MMIO legacy / PCI; buffer length 1528..65535) driven through 500 (thorough 2000) steps of "
     "frame injection bursts in arbitrary buffer order (frame length 0, 1, 1514, max, random), receive, recycle in arbitrary order, blocking send, raw receive_begin/poll/complete, receive_wait (device injects from the spin hook), raw transmit_begin/poll/complete. Non-trivial iff at least one received frame was compared; distinct by hash of (configuration, operation list).",
     [stage("checked", scale=8000)], [stage("checked", scale=12000), stage("asan", scale=1000, optional=True), stage("miri", optional=True, timeout=3600)])

prop("C17", "exploration", "reference vsock peer holding both credit windows and both byte streams in 64-bit arithmetic; every transmitted header decoded",
     "The real VsockConnectionManager/VirtIOSocket run against a reference peer: every packet on the transmit queue is decoded and checked (addressing, length, stream type, buf_alloc = configured capacity, fwd_cnt = bytes the application has read, advertised free space never above real free space); "
     "a send must succeed iff it fits the free space the peer last advertised (64-bit shadow of the 32-bit counters), otherwise it must be refused with exactly one credit request per starvation episode; the credit-respecting peer sends position-coded streams and everything read back is compared byte-wise; "
     "dedicated runs push more than 4 GiB through one connection in each direction so that tx_cnt and fwd_cnt wrap (transmit direction in every run, receive direction in thorough).",
     DRV_NOTE + " The peer's window may shrink, but never below what is still in flight after its own consumption. Situations the property leaves open (data before the response, request on an existing connection) are not generated.",
     "a case is one connection manager (per-connection capacity in {1,2,7,16,100,512,1024,4096,65536}; RX buffer 128/512 bytes; INDIRECT_DESC x EVENT_IDX; transports model/MMIO/PCI; device policy on-notify/polling/eager) driven through 600 (thorough 3000) steps of connect, listen, peer requests, sends of 1..4096 bytes, peer data within the advertised credit, recv of 0..2*capacity+1 bytes, "
     "peer credit updates with partial consumption and changed windows, credit requests, shutdown/reset, packets for unknown connections and malformed packets; plus case 0 = 4.5 GiB transmit-counter wrap run and (thorough) case 1 = 4.5 GiB receive/forward-counter wrap run on 64 KiB receive buffers. Non-trivial iff at least one packet was polled or stream byte checked; distinct by hash of (configuration, operation list, case).",
     [stage("checked", scale=8000)], [stage("checked", scale=12000), stage("release", scale=4000), stage("miri", optional=True, timeout=3600)])

prop("C18", "exploration", "lock-step reference connection table + posted-receive-buffer count after every poll",
     "The same co-simulation with a state-focused workload: a reference table keyed by (peer cid, peer port, local port) predicts for every polled packet the event reported and the exact packets the driver must send (response on listening ports, reset and no event otherwise, nothing for unknown or foreign-cid tuples, credit update on credit request, reset when a shut-down connection is drained), "
     "local operations on unknown connections must fail with NotConnected and duplicate connects with ConnectionExists, effects must stay confined to the addressed connection (every other connection's stream and credit state is still checked afterwards), and after every poll - whatever the packet was, including malformed ones - the device must see QUEUE_SIZE receive buffers posted.",
     DRV_NOTE + " Unspecified situations (request on an existing connection, reset with data buffered, data before the response) are not generated.",
     "a case is one connection manager with 4 peers x 4 local ports driven through 600 (thorough 3000) steps over all local operations (listen, unlisten, connect, send, recv, shutdown, force_close, update_credit) and all peer packet kinds incl. op 0, op > 7, control packets with data, truncated headers (used length < 44), length field > used length, wrong destination cid. "
     "Non-trivial iff at least one packet was polled; distinct by hash of (configuration, operation list, case).",
     [stage("checked", scale=8000)], [stage("checked", scale=12000), stage("asan", scale=1000, optional=True), stage("miri", optional=True, timeout=3600)])

prop("C19", "exploration", "reference device completing posted buffers in arbitrary order with uniquely numbered events; completion-order FIFO compared with deliveries; posted-buffer census after every poll",
     "OwningQueue is exercised directly for SIZE in {1,2,8,32} x BUFFER_SIZE in {8,64,512}, and through VirtIOInput::pop_pending_event and VirtIOSound::latest_notification on model/MMIO/PCI transports (the socket receive queue is audited in C18): the reference device fills any posted buffer with a uniquely numbered event of any length 0..=BUFFER_SIZE, "
     "bursts of 1..SIZE completions happen between polls, and every delivery must be the event at the front of the completion-order FIFO with exactly the written bytes; after every poll the buffer must have been re-posted under the same token and posted + completed-unpolled must equal the queue size, also when the handler rejects the event or ignores it.",
     DRV_NOTE + " Written lengths never exceed the buffer size here (oversized lengths are a C07 fault).",
     "a case is one stocked queue (12 OwningQueue instantiations x INDIRECT_DESC x EVENT_IDX, or one VirtIOInput / VirtIOSound instance on one of 3-4 transports) receiving >= 100 x SIZE events (3200 for input / sound) in bursts of 1..SIZE with the device choosing among posted buffers at random; sound notifications include unknown codes and short writes. "
     "Non-trivial iff at least one delivered event was compared; distinct by hash of (configuration, completion choices, case).",
     [stage("checked", scale=4000)], [stage("checked", scale=60000), stage("asan", scale=4000, optional=True), stage("miri", optional=True, timeout=7200)])

prop("C20", "exploration", "five reference devices decoding every request chain against the specification's structure layouts; GPU resource table + DMA-ledger audit of attached backing; PCM stream reassembly",
     "GPU, sound, entropy, clock and 9P drivers run against reference devices that decode each chain (little-endian field positions per VirtIO 1.2/1.3 structure layouts), check command order (create -> attach -> set_scanout; transfer -> flush; set_params before xfer), and answer with the expected success type or with error codes, wrong success types and garbage - any of which must turn into an Err. "
     "The reference GPU keeps a resource table and audits at every command, before drop and in the drop event log that every attached backing range is live DMA memory of at least the advertised length; the reference sound device reassembles position-coded PCM frames per stream (exactly once, in order, chunk <= period, right stream tag, outstanding <= capacity) under a deliberately lagging completion schedule; "
     "returned values (resolution, EDID preferred/standard timings against an independent decoder, entropy length and bytes, clock readings/capabilities/status mapping, stream capabilities, mount tag, 9P size-vs-used check) are compared with what the device reported.",
     DRV_NOTE + " After an injected GPU error response the case ends (driver and device state may legitimately differ). Resolutions with w*h*4 >= 2^32 and zero-sized resources are not generated; PCM completions are per-stream FIFO for the blocking API.",
     "a case is one driver instance of one of the five devices (transport model / model-no-unset / MMIO modern / MMIO legacy / PCI; INDIRECT_DESC x EVENT_IDX; device notification policy) driven through 40..60 operations with random parameters: entropy lengths 1..64 KiB with short deliveries; all three clock messages x statuses {0,1,2,3,4,5,6,0xff} x clock types/smearing/flags; "
     "9P requests with size field ==/!= used length and invalid buffer sizes; GPU resolution/framebuffer setup/change_resolution/flush/cursor setup+move with 1-in-8 unexpected responses, plus EDID cases of 400 random/structured 1024-byte blobs with size fields {0,127,128,129,256,1024,2^32-1}; sound set_params (valid/invalid), stream commands, jack remap, capability getters, blocking pcm_xfer of 1..40 periods (+ partial tail) and non-blocking batches. "
     "Non-trivial iff at least one request/response pair was checked; distinct by hash of (device, configuration, operation list, case).",
     [stage("checked", scale=8000)], [stage("checked", scale=22000), stage("asan", scale=2000, optional=True), stage("miri", optional=True, timeout=3600)])

prop("C08", "exploration", "ordered transport-event log (model transport calls / decoded register writes of the real MMIO and PCI transports) checked by a handshake automaton; device-side feature gates",
     "Each of the eleven drivers is constructed on eight transport variants for every subset of its relevant feature bits; the ordered log of transport events must be reset -> ACKNOWLEDGE|DRIVER -> features read -> features written (subset of the offer, VERSION_1 accepted when offered, nothing outside the driver's implemented set) -> FEATURES_OK -> queue set-up -> DRIVER_OK with no notification before DRIVER_OK; "
     "then a short usage script runs against a device that behaves according to the negotiated set, and the device side checks that INDIRECT descriptors, used_event/avail.flags, flush / EDID / emergency-write requests, feature-conditional configuration fields (net status, console size, 9P tag), the network header size and the access_platform argument of every Hal call all follow the negotiated features.",
     "The table of implemented and feature-gated bits (DESIGN Appendix B) is pinned to this commit (trusted base; a legitimate upstream feature addition needs a one-line table update). The 9P driver documents that it refuses devices without MOUNT_TAG; that refusal (before any configuration read or DRIVER_OK) is accepted.",
     "a case is (driver, transport, offered feature set): all 2^k subsets of the driver-relevant bits (ring bits 28,29,32,33 + implemented + unimplemented device-specific bits, k <= 9) on the three model transports (plain / no-op queue_unset / legacy layout) with 4 fillings of the irrelevant bits on the plain model, and every 5th subset (thorough: every subset) on MMIO modern, MMIO legacy, SomeTransport(MMIO), PCI, SomeTransport(PCI). "
     "Non-trivial iff construction reached DRIVER_OK (or the documented refusal); distinct by (driver, transport, offered set).",
     [stage("checked"), stage("release", scale=1000)], [stage("checked"), stage("release"), stage("miri", optional=True, timeout=3600)])

prop("C09", "fault_enumeration", "instrumented Hal with allocation-failure injection (every k) + merged ordered event log (transport events, ledger events, #[global_allocator] spy hits) checked by a liveness rule",
     "For every driver x transport variant x ring-feature variant the fault-free run is recorded and then re-run with the k-th dma_alloc failing for every k = 1..=A+1 (construction and the allocation-bearing part of the usage script); each run must end in Err(DmaError) rather than a panic, every region handed out must come back exactly once with identical address, pointer and page count (ledger), and nothing may stay allocated. "
     "Independently the merged event log is replayed through a liveness automaton: a dma_dealloc of a queue's region, or a heap free of memory still shared with the device (caught by a #[global_allocator] wrapper consulting the share table), is a violation while that queue is live - after DRIVER_OK and before queue_unset took effect, the device was reset or the transport was dropped. Drops with requests outstanding and construction errors after DRIVER_OK are separate scenarios.",
     "queue_unset is a no-op on PCI-like transports (one model variant + the real PCI transport), so only reset/transport drop quiesces there. Heap (non-DMA) leaks of indirect tables when a queue is dropped with chains outstanding are outside the statement. The allocator spy tracks at most 512 concurrently shared ranges.",
     "a case is (driver in 11, transport in {model, model with no-op queue_unset, model legacy layout, MMIO modern, MMIO legacy, PCI}, ring-feature variant, scenario in {construct + use + drop, construct + leave requests/buffers outstanding + drop}, k) with k ranging over 'no fault' and every allocation index 1..=A+1; plus 9P bad-tag (empty / invalid UTF-8 / longer than the window) and net undersized-buffer construction errors. "
     "Non-trivial iff the k-th allocation was actually reached (or no fault was planned); distinct by the tuple. Enumeration over k is exhaustive for each configuration (coverage.exhaustive refers to k only).",
     [stage("checked")], [stage("checked"), stage("release"), stage("asan", optional=True), stage("miri", optional=True, timeout=3600)])

prop("C07", "fault_enumeration", "hostile reference device (fault catalogue x target matrix) under AddressSanitizer / Miri / valgrind, with ledger (double release) and differential (scribbling) oracles",
     "Every fault of the catalogue (used-ring ids out of range / free / other outstanding / duplicated / with high bits set, lengths 0 / +1 / 2^31 / 2^32-1, index jumps 2 / N / 32768 / 65535, element rewritten between the driver's two loads via the load hook) is applied at several positions of a well-formed prefix to the raw VirtQueue (direct, indirect) and to OwningQueue; "
     "every driver is run on three transports against all-ones / random responses, wrong used lengths, wrong / out-of-range completion ids, index jumps, hostile items on its self-stocked queue and extreme configuration values; each hostile step runs under catch_unwind (a clean panic is an accepted outcome). "
     "Oracles: AddressSanitizer (quick gate) / Miri (queue + OwningQueue subset) / valgrind memcheck on the plain release binary (thorough) for invalid accesses; the instrumented Hal for double or never-issued unshare / dealloc; slice-length assertions; and a differential run (same seed with and without the device overwriting descriptor table + available ring after every driver store; with an in-place platform also the indirect tables) whose API results and platform-call log must be identical. "
     "Configuration values that size an allocation run in a memory-limited subprocess (an allocation-failure abort is not a clean panic).",
     "Sanitizer silence on the catalogue is not memory safety in general (ASan misses intra-object and far out-of-bounds accesses; Miri covers the model-transport subset only). A worker killed by a signal or a sanitizer report counts as a violation of this property; leaks under a hostile device are not violations. Two known findings are listed in known_findings.jsonl.",
     "a case is (target, fault kind, position/variant): 15 used-ring faults x positions {0,1,2,5} x 8 raw-queue / 4 OwningQueue variants; 11 drivers x 14 driver-level faults x {model, MMIO modern, PCI} x ring-feature variants; 400 (thorough 4000 x scale) differential histories over N in {2,4,8} x direct/indirect x event_idx x bounce/in-place platform x table scribbling; 4000 (thorough 40000 x scale) multi-fault random histories on raw VirtQueue<1|2|4|16> and OwningQueue<2|4|8> in which the device draws a hostile action (arbitrary id / length / index jump, scribbling over descriptor table and available ring, rejected events) at every step; 20 (thorough 200 x scale) multi-fault histories per driver in which every request, spin round and stocked event draws a fault; 1 memory-limited subprocess. "
     "Non-trivial iff the fault was actually consumed by the driver (a driver load happened after it); distinct by the case name.",
     [stage("checked"), stage("asan", timeout=1800)], [stage("checked", scale=30000), stage("asan", scale=10000, timeout=3600), stage("miri", optional=True, timeout=3600), stage("valgrind", scale=2000, optional=True, shards=16, timeout=3600)],
     sanitizer_is_violation=True)

# Observation thresholds (counter of the first, mandatory stage -> minimum).  A run below them is INCONCLUSIVE.
MIN = {
    "C01": {"chains_validated": 1_000_000, "descriptors_validated": 2_000_000, "cases_index_wrap": 10},
    "C02": {"hook_observations": 500_000, "hook_chain_validations": 300_000, "miri-race:t_adds": 100},
    "C03": {"pops_wrong_token": 100_000, "capacity_probes": 500, "cases_index_wrap": 10},
    "C04": {"bytes_checked": 100_000_000, "adds_refused": 100_000},
    "C05": {"eventidx_needed": 1_000_000, "sweep_passes_covering_all_65536_indices": 10, "blocking_requests_checked": 2000, "flagmode_instances": 10_000},
    "C06": {"creations_checked": 768, "refusals_checked": 2304, "releases_audited": 768},
    "C07": {"cases_driver_level": 300, "cases_raw_virtqueue": 200, "cases_owning_queue": 100, "cases_differential_scribble": 100, "asan:cases_driver_level": 300},
    "C08": {"handshake_logs_checked": 5000, "chains_seen_by_device": 10_000},
    "C09": {"cases_with_injected_allocation_failure": 500, "dma_deallocs_checked_against_liveness": 1000},
    "C10": {"register_accesses_checked": 10_000_000, "probes_rejected": 100_000, "probes_accepted": 1000},
    "C11": {"constructions_ok": 10_000, "constructions_refused": 10_000, "register_accesses_checked": 1_000_000},
    "C12": {"cam_tuples_checked": 8_388_608, "bar_info_mem64": 100_000, "bus_populations_checked": 1000},
    "C13": {"config_accesses_judged": 50_000, "torn_read_runs": 1000, "out_of_window_refusals_checked": 1000},
    "C14": {"chains_parsed_by_reference_disk": 1_000_000, "nb_completions": 100_000},
    "C15": {"bytes_received_and_checked": 100_000_000, "transmit_chains_checked": 100_000},
    "C16": {"frames_received_and_compared": 100_000, "conservation_checks": 1_000_000},
    "C17": {"tx_headers_checked": 100_000, "stream_bytes_read_and_checked": 1_000_000, "tx_counter_wraps": 1},
    "C18": {"connection_table_audits": 100_000, "posted_buffer_audits": 100_000},
    "C19": {"owning_events_delivered_and_compared": 100_000, "input_events_delivered_and_compared": 100_000, "sound_notifications_delivered_and_compared": 100_000},
    "C20": {"responses_and_requests_checked": 100_000, "pcm_chunks_reassembled": 100_000, "gpu_edid_queries": 10_000},
}

def min_observed(pid, stages):
    """Key names as ./check merges them: prefixed with the build flavour iff the tier has several stages."""
    out = {}
    multi = len(stages) > 1
    first = stages[0]["build"]
    for k, v in MIN.get(pid, {}).items():
        if ":" in k:
            b, c = k.split(":")
            if any(st["build"] == b and not st.get("optional") for st in stages):
                out["%s.%s" % (b, c) if multi else c] = v
        else:
            out["%s.%s" % (first, k) if multi else k] = v
    return out

NOT_YET = {}
import re
props = [json.loads(l) for l in open(os.path.join(ROOT, "properties.jsonl"))]
for p in props:
    if p["id"] not in P:
        NOT_YET[p["id"]] = "check not built yet in this session (work in progress; see DESIGN.md §4 for the planned monitor)"

def main():
    plan = {"properties": {}}
    checks = []
    for pid in sorted(P):
        d = P[pid]
        plan["properties"][pid] = {"level": d["level"], "rule": d["rule"], "assumptions": d["assumptions"],
                                   "stages": {"quick": d["quick"], "thorough": d["thorough"]},
                                   "sanitizer_is_violation": d["sanitizer_is_violation"], "oom_subprocess": pid == "C07",
                                   "min_observed": {"quick": min_observed(pid, d["quick"]), "thorough": min_observed(pid, d["thorough"])}}
        checks.append({
            "property_id": pid,
            "quick_cmd": "./check %s --tier quick" % pid,
            "thorough_cmd": "./check %s --tier thorough" % pid,
            "evidence_file": "/verif/evidence/%s.json" % pid,
            "replay_cmd_template": "./check %s --replay {path}" % pid,
            "engine": "vharness",
            "level_claimed": {"category": d["level"], "text": d["text"], "design_ref": "DESIGN.md " + d["design"] + " " + pid},
            "level_note": d["note"],
            "technique": d["technique"],
        })
    man = {
        "version": 1,
        "setup_cmd": "./check --setup",
        "hooks": {
            "guard": "--cfg virtio_drivers_verif",
            "enable": "RUSTFLAGS='--cfg virtio_drivers_verif' (set by ./check for every harness build; /repo is a path dependency of /verif/harness)",
            "baseline_off_cmd": "cd /repo && cargo test --workspace --no-fail-fast --offline",
            "source_commits": HOOK_COMMITS,
            "add_only": True,
        },
        "engines": [{"name": "vharness", "path": "/verif/harness", "serves_properties": sorted(P), "kind_free_text":
                     "Rust co-simulation harness: instrumented Hal (ledger), MMIO bus via safe-mmio custom-mmio, model/real transports, reference virtqueue device and device personalities, per-property monitors; run natively (overflow-checked release), under ASan, Miri and valgrind by ./check"}],
        "checks": checks,
        "notes": "Technique family: runtime monitoring and sanitizers only. Verdicts are three-valued (exit 0 held / 1 VIOLATION / 3 INCONCLUSIVE). Known findings: /verif/known_findings.jsonl (16 fixed, 1 known). Genuine defects repaired in /repo by unguarded 'fix:' commits: " + ", ".join(FIX_COMMITS) + ". Seeded changes and the check-vs-change matrix: /verif/seeded/ (MATRIX.md), DESIGN.md section 12.",
        "not_applicable": [{"property_id": k, "reason": v} for k, v in sorted(NOT_YET.items())],
    }
    json.dump(plan, open(os.path.join(ROOT, "plan.json"), "w"), indent=1)
    json.dump(man, open(os.path.join(ROOT, "MANIFEST.json"), "w"), indent=1)
    print("wrote plan.json, MANIFEST.json:", len(checks), "checks,", len(NOT_YET), "not_applicable")

HOOK_COMMITS = ["3c7b69a"]
FIX_COMMITS = ["0598fcf", "bc247e1", "811bf5f", "d0efe8d", "71da244", "db6be61", "1b3383f", "56251f9", "86dc6a3", "74ba7fd", "cbab019", "ea19641", "6120dbe", "2b98425", "ee29417", "d32d18b"]

if __name__ == "__main__":
    main()
