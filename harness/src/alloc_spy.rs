//! #[global_allocator] wrapper that notices a heap `free` of memory which is still shared with the
//! device (DESIGN C09).  No allocation, no TLS: a fixed static table guarded by an atomic flag.
//! Only the (single) harness thread that enabled it updates the table.
use std::alloc::{GlobalAlloc, Layout, System};
use std::sync::atomic::{AtomicBool, AtomicUsize, Ordering};

pub struct Spy;

const CAP: usize = 512;
static ENABLED: AtomicBool = AtomicBool::new(false);
static N: AtomicUsize = AtomicUsize::new(0);
static mut RANGES: [(usize, usize); CAP] = [(0, 0); CAP];
static HITS: AtomicUsize = AtomicUsize::new(0);
static mut HIT_LOG: [(usize, usize, u64); 16] = [(0, 0, 0); 16];

// SAFETY: delegates to System; the bookkeeping never allocates.
unsafe impl GlobalAlloc for Spy {
    unsafe fn alloc(&self, l: Layout) -> *mut u8 {
        unsafe { System.alloc(l) }
    }
    unsafe fn alloc_zeroed(&self, l: Layout) -> *mut u8 {
        unsafe { System.alloc_zeroed(l) }
    }
    unsafe fn realloc(&self, p: *mut u8, l: Layout, n: usize) -> *mut u8 {
        if ENABLED.load(Ordering::Relaxed) {
            check(p as usize, l.size());
        }
        unsafe { System.realloc(p, l, n) }
    }
    unsafe fn dealloc(&self, p: *mut u8, l: Layout) {
        if ENABLED.load(Ordering::Relaxed) {
            check(p as usize, l.size());
        }
        unsafe { System.dealloc(p, l) }
    }
}

fn check(p: usize, size: usize) {
    let n = N.load(Ordering::Relaxed);
    for i in 0..n.min(CAP) {
        // SAFETY: single-threaded use while enabled; plain reads of a static table.
        let (a, len) = unsafe { RANGES[i] };
        if len != 0 && p < a + len && a < p + size.max(1) {
            let h = HITS.fetch_add(1, Ordering::Relaxed);
            if h < 16 {
                // SAFETY: as above.
                unsafe { HIT_LOG[h] = (p, size, crate::evlog::SEQ.load(Ordering::Relaxed)) };
            }
        }
    }
}

pub fn enable(on: bool) {
    ENABLED.store(on, Ordering::SeqCst);
}
pub fn clear() {
    N.store(0, Ordering::SeqCst);
    HITS.store(0, Ordering::SeqCst);
}
pub fn add_range(vaddr: usize, len: usize) {
    if !ENABLED.load(Ordering::Relaxed) {
        return;
    }
    let n = N.load(Ordering::Relaxed);
    // reuse a free slot first
    for i in 0..n.min(CAP) {
        // SAFETY: single-threaded use while enabled.
        unsafe {
            if RANGES[i].1 == 0 {
                RANGES[i] = (vaddr, len);
                return;
            }
        }
    }
    if n < CAP {
        // SAFETY: single-threaded use while enabled.
        unsafe { RANGES[n] = (vaddr, len) };
        N.store(n + 1, Ordering::Relaxed);
    }
}
pub fn remove_range(vaddr: usize, len: usize) {
    if !ENABLED.load(Ordering::Relaxed) {
        return;
    }
    let n = N.load(Ordering::Relaxed);
    for i in 0..n.min(CAP) {
        // SAFETY: single-threaded use while enabled.
        unsafe {
            if RANGES[i] == (vaddr, len) {
                RANGES[i] = (0, 0);
                return;
            }
        }
    }
}
/// Returns and clears the hits (ptr, size, position in the event log) recorded so far.
pub fn take_hits() -> Vec<(usize, usize, u64)> {
    let h = HITS.swap(0, Ordering::SeqCst);
    let mut v = vec![];
    for i in 0..h.min(16) {
        // SAFETY: single-threaded use.
        v.push(unsafe { HIT_LOG[i] });
    }
    v
}
