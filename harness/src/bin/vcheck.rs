use vharness::checks::{self, Args};
use vharness::json;

#[global_allocator]
static GLOBAL: vharness::alloc_spy::Spy = vharness::alloc_spy::Spy;

vharness::install_mmio_ops!();

fn main() {
    let a: Vec<String> = std::env::args().collect();
    if a.len() < 2 {
        eprintln!("usage: vcheck <Cxx> [--tier quick|thorough] [--build NAME] [--seed N] [--shard i/n] [--scale permille] [--replay FILE]");
        std::process::exit(2);
    }
    let mut args = Args { prop: a[1].clone(), tier: "quick".into(), build: "checked".into(), seed: 1, shard: 0, nshards: 1, replay: None, scale: 1000 };
    let mut i = 2;
    while i < a.len() {
        match a[i].as_str() {
            "--tier" => { args.tier = a[i + 1].clone(); i += 2; }
            "--build" => { args.build = a[i + 1].clone(); i += 2; }
            "--seed" => { args.seed = a[i + 1].parse().expect("seed"); i += 2; }
            "--scale" => { args.scale = a[i + 1].parse().expect("scale"); i += 2; }
            "--shard" => {
                let (x, y) = a[i + 1].split_once('/').expect("i/n");
                args.shard = x.parse().unwrap();
                args.nshards = y.parse().unwrap();
                i += 2;
            }
            "--replay" => {
                let s = std::fs::read_to_string(&a[i + 1]).expect("replay file");
                args.replay = Some(json::parse(&s).expect("replay json"));
                i += 2;
            }
            x => { eprintln!("unknown arg {}", x); std::process::exit(2); }
        }
    }
    // quiet panics: the harness catches and classifies them
    std::panic::set_hook(Box::new(|info| {
        if std::env::var_os("VCHECK_PANIC_TRACE").is_some() {
            eprintln!("panic: {}", info);
        }
    }));
    vharness::hooks::install();
    // big stack: VirtQueue<_, 32768> is ~1 MiB inline
    let child = std::thread::Builder::new().stack_size(if cfg!(miri) { 16 << 20 } else { 512 << 20 }).spawn(move || {
        let sh = checks::run(&args);
        sh.emit();
        sh
    }).unwrap();
    match child.join() {
        Ok(sh) => {
            if sh.has_own_violation() { std::process::exit(1) }
            if !sh.inconclusive.is_empty() { std::process::exit(3) }
        }
        Err(_) => { println!("HARNESS-ERROR worker thread panicked"); std::process::exit(4) }
    }
}
