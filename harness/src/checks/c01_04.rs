//! C01–C04: virtqueue core histories (shared runner in qcore.rs, per-property workload presets).
use super::Args;
use crate::json::J;
use crate::qcore::{self, Knobs, QCfg, SIZES};
use crate::report::{Shard, Violation};
use crate::rng::Rng;

fn pick_cfg(rng: &mut Rng, max_size: usize, case: u64) -> QCfg {
    // flags are enumerated round-robin (all 16 combinations), sizes are weighted
    let mut x = case;
    let flags = crate::rng::splitmix64(&mut x) % 16;
    let size = loop {
        let s = match rng.below(100) {
            0..=69 => SIZES[rng.below(7) as usize],       // 1..64
            70..=84 => SIZES[7 + rng.below(3) as usize],  // 128..512
            85..=94 => SIZES[10 + rng.below(3) as usize], // 1024..4096
            _ => SIZES[13 + rng.below(3) as usize],       // 8192..32768
        };
        if s <= max_size {
            break s;
        }
    };
    QCfg { size, indirect: flags & 1 != 0, event_idx: flags & 2 != 0, ap: flags & 4 != 0, legacy: flags & 8 != 0 }
}

struct Plan {
    cfg: QCfg,
    knobs: Knobs,
    seed: u64,
    kind: &'static str,
}

fn plan_for(args: &Args, case: u64) -> Plan {
    let mut rng = Rng::derive(args.seed, 0xC0DE, case, args.prop.as_bytes()[2] as u64);
    let mut k = qcore::default_knobs();
    let miri = args.is_miri();
    let prop = args.prop.as_str();
    let max_size = if miri { 8 } else if prop == "C02" { 64 } else { 32768 };
    let mut cfg = pick_cfg(&mut rng, max_size, case);
    let mut kind = "mixed";
    match prop {
        "C01" => {
            k.max_bufs = 12;
            k.max_len = if rng.chance(1, 8) { 4096 } else { 128 };
            k.steps = rng.range(50, 1500) as usize;
            k.wrong_token_pct = 5;
        }
        "C02" => {
            k.hook_validate = true;
            k.max_bufs = 12;
            k.max_len = 64;
            k.steps = rng.range(50, 600) as usize;
            k.wrong_token_pct = 5;
            k.fill_bias = 80;
        }
        "C03" => {
            k.max_bufs = 8;
            k.max_len = 32;
            k.steps = rng.range(50, 2000) as usize;
            k.wrong_token_pct = 15;
        }
        _ => {
            // C04
            k.max_bufs = 8;
            k.max_len = if rng.chance(1, 4) { 2048 } else { 200 };
            k.steps = rng.range(50, 1000) as usize;
            k.wrong_token_pct = 8;
            k.arbitrary_len = false;
        }
    }
    // every 16th case per shard-stream is a long run across the 16-bit index wrap (small queues)
    let long_every = if args.thorough() { 8 } else { 24 };
    let mut x = case ^ 0xabcdef;
    if !miri && crate::rng::splitmix64(&mut x) % long_every == 3 {
        kind = "index_wrap";
        cfg.size = *rng.pick(&[1usize, 2, 4, 8, 16]);
        k.max_bufs = k.max_bufs.min(4);
        k.max_len = 16;
        k.fill_bias = 70;
        k.steps = 65536;
        k.min_adds = if prop == "C03" && args.thorough() { 3 * 65536 + 64 } else { 65536 + 4 * cfg.size as u64 + 64 };
    }
    if miri {
        k.steps = k.steps.min(120);
        k.max_len = k.max_len.min(64);
    }
    Plan { cfg, knobs: k, seed: rng.next(), kind }
}

fn case_json(p: &Plan, case: u64) -> J {
    J::obj().with("case", J::u(case)).with("kind", J::s(p.kind)).with("queue", p.cfg.to_json()).with("steps", J::us(p.knobs.steps)).with("history_seed", J::s(format!("{:#x}", p.seed)))
}

pub fn run(args: &Args, sh: &mut Shard) {
    if let Some(r) = &args.replay {
        let case = r.get("case").and_then(|c| c.as_u64()).unwrap_or(0);
        let p = plan_for(args, case);
        let out = qcore::run_history(p.cfg, &p.knobs, p.seed, true, false);
        println!("REPLAY case {} {} steps_done={}", case, p.cfg.describe(), out.steps_done);
        let n = out.oplog.len();
        for l in &out.oplog[n.saturating_sub(40)..] {
            println!("  op: {}", l);
        }
        for v in &out.viol {
            println!("  VIOLATED {}/{}: {}", v.prop, v.rule, v.detail);
            sh.violation(Violation { prop: v.prop.into(), signature: format!("{}/{}", v.prop, v.rule), detail: v.detail.clone(), replay: case_json(&p, case) });
        }
        sh.evaluations = 1;
        return;
    }
    // nominal number of cases over all shards
    let total: u64 = match (args.prop.as_str(), args.thorough(), args.is_miri()) {
        (_, _, true) => 16 * 6,
        ("C02", false, _) => 3200,
        ("C02", true, _) => 40000,
        (_, false, _) => 6400,
        (_, true, _) => 96000,
    };
    let total = args.scaled(total);
    let mut case = args.shard;
    while case < total {
        let p = plan_for(args, case);
        let out = qcore::run_history(p.cfg, &p.knobs, p.seed, false, false);
        sh.evaluations += 1;
        for (k, v) in &out.counters {
            sh.inc(k, *v);
        }
        sh.inc(&format!("cases_size_{}", p.cfg.size), 1);
        sh.inc(if p.cfg.indirect { "cases_indirect" } else { "cases_direct" }, 1);
        if p.kind == "index_wrap" {
            sh.inc("cases_index_wrap", 1);
        }
        if out.nontrivial {
            sh.nontrivial.insert(out.hash);
        }
        if sh.want_sample() && out.nontrivial {
            let mut s = case_json(&p, case);
            if p.knobs.steps <= 2000 && p.knobs.min_adds == 0 {
                let again = qcore::run_history(p.cfg, &p.knobs, p.seed, true, false);
                s.set("first_operations", J::arr(again.oplog.iter().take(14).map(|l| J::s(l.clone()))));
            }
            s.set("adds_ok", J::u(*out.counters.get("adds_ok").unwrap_or(&0)));
            s.set("pops_ok", J::u(*out.counters.get("pops_ok").unwrap_or(&0)));
            s.set("chains_validated", J::u(*out.counters.get("chains_validated").unwrap_or(&0)));
            sh.sample(s);
        }
        for v in &out.viol {
            let mut rp = case_json(&p, case);
            rp.set("property", J::s(args.prop.clone()));
            rp.set("tier", J::s(args.tier.clone()));
            rp.set("build", J::s(args.build.clone()));
            rp.set("seed", J::u(args.seed));
            rp.set("rule", J::s(v.rule));
            sh.violation(Violation { prop: v.prop.into(), signature: format!("{}/{}", v.prop, v.rule), detail: format!("{} [{}; case {}]", v.detail, p.cfg.describe(), case), replay: rp });
        }
        if sh.has_own_violation() && sh.violations.len() >= 3 {
            break;
        }
        case += args.nshards;
    }
    // observation thresholds: a run that observed (almost) nothing is inconclusive, not "held"
    let need = match args.prop.as_str() {
        "C01" => ("chains_validated", 100),
        "C02" => ("hook_chain_validations", 100),
        "C03" => ("pops_attempted", 100),
        _ => ("bytes_checked", 100),
    };
    // (per shard; Miri shards are six short histories each, the merged-run thresholds are in plan.json)
    let need = (need.0, if args.is_miri() { 5 } else { need.1 });
    if !sh.has_own_violation() && *sh.counters.get(need.0).unwrap_or(&0) < need.1 {
        sh.inconclusive.push(format!("observation threshold not met: {} = {} < {}", need.0, sh.counters.get(need.0).unwrap_or(&0), need.1));
    }
}

#[allow(dead_code)]
pub fn debug_mismatch(args: &Args) {
    for case in 0..6400u64 {
        let p = plan_for(args, case);
        let out = qcore::run_history(p.cfg, &p.knobs, p.seed, false, false);
        let a = *out.counters.get("adds_ok").unwrap_or(&0);
        let b = *out.counters.get("pops_ok").unwrap_or(&0);
        if a != b {
            println!("case {} {} adds {} pops {} viol {:?}", case, p.cfg.describe(), a, b, out.viol);
        }
    }
}
