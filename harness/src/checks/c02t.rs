//! C02, second layer ("C02T"): a real device *thread* against the real `VirtQueue`, meant to run under
//! Miri's data-race detector (build flavour `miri-race`, one scheduler seed per shard); also runs
//! natively as a content check under true parallelism.
//!
//! The device thread is written the way a device is specified: it `Acquire`-loads `avail.idx`, then
//! reads the ring slot, the descriptors, indirect tables and driver-readable buffers **non-atomically**,
//! writes device-writable buffers and the used element non-atomically and `Release`-stores `used.idx`.
//! The only synchronisation between the two threads is therefore the library's own publication of
//! `avail.idx` and consumption of `used.idx`: if the first is not a release or the second not an
//! acquire, Miri reports a data race between the driver's non-atomic writes of the entry and the
//! device's reads (an index covering an entry that is not yet complete for the device), resp. between
//! the device's writes and the driver's reads of the completion.
//!
//! Everything the device needs to know (the expected chains) is handed over *before* the first
//! submission, so the harness adds no happens-before edge after any of the library's stores; the
//! progress counter used for the interleaving fingerprint is `Relaxed`.
use super::Args;
use crate::hooks;
use crate::json::J;
use crate::mem::{self, FastHal, FastQ, HalMode};
use crate::report::{Shard, Violation};
use crate::rng::{Hash64, Rng};
use crate::xport_model::{ModelState, ModelTransport};
use std::sync::atomic::{AtomicBool, AtomicU16, AtomicU64, Ordering};
use std::sync::{Arc, Mutex};
use virtio_drivers::queue::VirtQueue;
use virtio_drivers::transport::DeviceType;

#[derive(Clone, Debug)]
struct Seg {
    addr: u64,
    len: u32,
    write: bool,
}

#[derive(Clone, Debug)]
struct Expect {
    segs: Vec<Seg>,
    /// first byte of the position-coded content of readable segments / pattern the device writes
    tag: u8,
}

struct Shared {
    expect: Vec<Expect>,
    stop: AtomicBool,
    driver_ops: AtomicU64,
    errors: Mutex<Vec<String>>,
    trace: Mutex<Vec<(u64, u16)>>,
}

#[derive(Clone, Copy)]
struct DevPtrs {
    desc: *mut u8,
    avail: *mut u8,
    used: *mut u8,
    n: u16,
    indirect: bool,
}
// SAFETY: the pointers designate DMA regions that outlive the device thread (joined before the queue is dropped).
unsafe impl Send for DevPtrs {}

const F_NEXT: u16 = 1;
const F_WRITE: u16 = 2;
const F_INDIRECT: u16 = 4;

fn rd_desc(base: *const u8, i: usize) -> (u64, u32, u16, u16) {
    // SAFETY: caller bounds i; non-atomic on purpose (see module doc).
    unsafe {
        let p = base.add(16 * i);
        ((p as *const u64).read(), (p.add(8) as *const u32).read(), (p.add(12) as *const u16).read(), (p.add(14) as *const u16).read())
    }
}

fn device_thread(p: DevPtrs, sh: Arc<Shared>) {
    let total = sh.expect.len() as u64;
    let mut seen: u64 = 0;
    let mut used_idx: u16 = 0;
    let mut idle: u64 = 0;
    let mut local_trace = vec![];
    let err = |m: String| sh.errors.lock().unwrap().push(m);
    // SAFETY: avail+2 / used+2 are the 2-byte aligned index fields of live rings.
    let avail_idx_a = unsafe { &*(p.avail.add(2) as *const AtomicU16) };
    let used_idx_a = unsafe { &*(p.used.add(2) as *const AtomicU16) };
    while seen < total {
        let a = avail_idx_a.load(Ordering::Acquire);
        local_trace.push((sh.driver_ops.load(Ordering::Relaxed), a));
        if a == seen as u16 {
            idle += 1;
            if sh.stop.load(Ordering::Relaxed) || idle > 50_000_000 {
                break;
            }
            std::thread::yield_now();
            continue;
        }
        idle = 0;
        if a.wrapping_sub(seen as u16) > p.n {
            err(format!("avail.idx {} runs more than the queue size ahead of {} fetched entries", a, seen));
            break;
        }
        while seen as u16 != a {
            let e = &sh.expect[seen as usize];
            let slot = (seen as u16 & (p.n - 1)) as usize;
            // SAFETY: slot < n.
            let head = unsafe { (p.avail.add(4 + 2 * slot) as *const u16).read() };
            let mut got: Vec<Seg> = vec![];
            let mut bad = None;
            if head >= p.n {
                bad = Some(format!("ring slot {} holds {} >= queue size", slot, head));
            } else {
                let (addr, len, flags, next) = rd_desc(p.desc, head as usize);
                if flags & F_INDIRECT != 0 {
                    if !p.indirect || flags != F_INDIRECT || len % 16 != 0 || len == 0 {
                        bad = Some(format!("bad indirect descriptor flags={:#x} len={}", flags, len));
                    } else {
                        let tbl = addr as usize as *const u8;
                        let cnt = (len / 16) as usize;
                        for i in 0..cnt {
                            let (a2, l2, f2, n2) = rd_desc(tbl, i);
                            let last = i + 1 == cnt;
                            if (f2 & F_NEXT != 0) == last || (!last && n2 as usize != i + 1) || f2 & F_INDIRECT != 0 {
                                bad = Some(format!("indirect table entry {} of {}: flags={:#x} next={}", i, cnt, f2, n2));
                                break;
                            }
                            got.push(Seg { addr: a2, len: l2, write: f2 & F_WRITE != 0 });
                        }
                    }
                } else {
                    let (mut addr, mut len, mut flags, mut next) = (addr, len, flags, next);
                    let mut steps = 0;
                    loop {
                        got.push(Seg { addr, len, write: flags & F_WRITE != 0 });
                        if flags & F_NEXT == 0 {
                            break;
                        }
                        steps += 1;
                        if next >= p.n || steps > p.n {
                            bad = Some(format!("chain leaves the table or loops (next={})", next));
                            break;
                        }
                        let d = rd_desc(p.desc, next as usize);
                        addr = d.0;
                        len = d.1;
                        flags = d.2;
                        next = d.3;
                    }
                }
            }
            if bad.is_none() && (got.len() != e.segs.len() || got.iter().zip(&e.segs).any(|(g, x)| g.addr != x.addr || g.len != x.len || g.write != x.write)) {
                bad = Some(format!("entry {} differs from the submitted buffers: saw {:?}, expected {:?}", seen, got, e.segs));
            }
            if let Some(b) = bad {
                err(format!("entry {} (avail.idx {} visible): {}", seen, a, b));
                sh.stop.store(true, Ordering::Relaxed);
                return;
            }
            // consume readable data, produce writable data
            let mut written = 0u32;
            for s in &e.segs {
                let ptr = s.addr as usize as *mut u8;
                for k in 0..s.len as usize {
                    // SAFETY: the driver shared exactly these bytes and keeps them alive until it consumed the completion.
                    unsafe {
                        if s.write {
                            ptr.add(k).write(e.tag ^ 0xa5 ^ (k as u8));
                        } else if ptr.add(k).read() != e.tag.wrapping_add(k as u8) {
                            err(format!("entry {}: readable byte {} of a buffer is not what the driver had written before submitting", seen, k));
                            sh.stop.store(true, Ordering::Relaxed);
                            return;
                        }
                    }
                }
                if s.write {
                    written += s.len;
                }
            }
            let uslot = (used_idx & (p.n - 1)) as usize;
            // SAFETY: uslot < n; plain stores followed by the release store of the index.
            unsafe {
                (p.used.add(4 + 8 * uslot) as *mut u32).write(head as u32);
                (p.used.add(8 + 8 * uslot) as *mut u32).write(written);
            }
            used_idx = used_idx.wrapping_add(1);
            used_idx_a.store(used_idx, Ordering::Release);
            seen += 1;
        }
    }
    sh.trace.lock().unwrap().extend(local_trace);
}

struct Buf {
    ptr: *mut u8,
    len: usize,
}

fn one_case<const N: usize>(args: &Args, case: u64, indirect: bool, sh: &mut Shard) {
    let mut rng = Rng::derive(args.seed, 0xc02, case, N as u64);
    let adds = if args.build.starts_with("miri") { 6 + (rng.next() >> 33) % 9 } else { 200 + (rng.next() >> 33) % 1800 } as usize;
    mem::reset(HalMode::Bounce);
    hooks::clear();
    let st = ModelState::new(DeviceType::Block, 0);
    let mut t = ModelTransport::new(&st);
    let mut q = match VirtQueue::<FastHal, N>::new(&mut t, 0, indirect, false, false) {
        Ok(q) => q,
        Err(e) => {
            sh.inconclusive.push(format!("C02T queue creation failed: {:?}", e));
            return;
        }
    };
    let r = *st.borrow().queues.get(&0).unwrap();
    let fq = FastQ::new(r.desc, r.driver, r.device, N as u16).expect("queue memory");
    // plan: every submission with its own buffers (kept as raw allocations: the device writes them)
    let mut bufs: Vec<Vec<Buf>> = vec![];
    let mut store: Vec<Vec<u8>> = vec![];
    let mut expect = vec![];
    for i in 0..adds {
        let nb = rng.range(1, (N as u64).min(3)) as usize;
        let nin = rng.range(0, nb as u64) as usize;
        let tag = (i as u8).wrapping_mul(37).wrapping_add(11);
        let mut bs = vec![];
        let mut segs = vec![];
        for b in 0..nb {
            let len = rng.range(1, 24) as usize;
            let mut v = vec![0u8; len];
            let write = b >= nin;
            if !write {
                for (k, x) in v.iter_mut().enumerate() {
                    *x = tag.wrapping_add(k as u8);
                }
            }
            let ptr = v.as_mut_ptr();
            store.push(v);
            segs.push(Seg { addr: ptr as usize as u64, len: len as u32, write });
            bs.push(Buf { ptr, len });
        }
        bufs.push(bs);
        expect.push(Expect { segs, tag });
    }
    let shared = Arc::new(Shared { expect: expect.clone(), stop: AtomicBool::new(false), driver_ops: AtomicU64::new(0), errors: Mutex::new(vec![]), trace: Mutex::new(vec![]) });
    let ptrs = DevPtrs { desc: fq.desc, avail: fq.avail, used: fq.used, n: N as u16, indirect };
    let sh2 = shared.clone();
    let dev = std::thread::spawn(move || device_thread(ptrs, sh2));
    // driver
    let mut next_add = 0usize;
    let mut tok2add: Vec<Option<usize>> = vec![None; N];
    let mut free = N;
    let mut popped = 0usize;
    let mut fail: Option<(String, String)> = None;
    let mut waits: u64 = 0;
    let descs = |e: &Expect| if indirect && e.segs.len() > 1 { 1 } else { e.segs.len() };
    while popped < adds && fail.is_none() && !shared.stop.load(Ordering::Relaxed) {
        let can_add = next_add < adds && descs(&expect[next_add]) <= free;
        let do_add = can_add && (free == N || rng.chance(2, 3));
        if do_add {
            let e = &expect[next_add];
            let bs = &bufs[next_add];
            // SAFETY: the raw allocations live in `store` until the end of the case.
            let ins: Vec<&[u8]> = bs.iter().zip(&e.segs).filter(|(_, s)| !s.write).map(|(b, _)| unsafe { std::slice::from_raw_parts(b.ptr, b.len) }).collect();
            let mut outs: Vec<&mut [u8]> = bs.iter().zip(&e.segs).filter(|(_, s)| s.write).map(|(b, _)| unsafe { std::slice::from_raw_parts_mut(b.ptr, b.len) }).collect();
            // SAFETY: buffers stay valid and untouched by the driver side until popped.
            match unsafe { q.add(&ins, &mut outs) } {
                Ok(tok) => {
                    tok2add[tok as usize] = Some(next_add);
                    free -= descs(e);
                    next_add += 1;
                    sh.inc("t_adds", 1);
                }
                Err(er) => fail = Some(("add_refused_with_capacity".into(), format!("add #{} refused: {:?} (free {} of {})", next_add, er, free, N))),
            }
            shared.driver_ops.fetch_add(1, Ordering::Relaxed);
            continue;
        }
        if !q.can_pop() {
            waits += 1;
            if waits > 50_000_000 {
                sh.inconclusive.push("C02T driver wait watchdog".into());
                break;
            }
            std::thread::yield_now();
            continue;
        }
        let tok = q.peek_used().expect("can_pop but no token");
        let Some(ai) = tok2add.get(tok as usize).copied().flatten() else {
            fail = Some(("unknown_token_completed".into(), format!("device thread completed token {} which is not outstanding", tok)));
            break;
        };
        let e = &expect[ai];
        let bs = &bufs[ai];
        // SAFETY: as above.
        let ins: Vec<&[u8]> = bs.iter().zip(&e.segs).filter(|(_, s)| !s.write).map(|(b, _)| unsafe { std::slice::from_raw_parts(b.ptr, b.len) }).collect();
        let mut outs: Vec<&mut [u8]> = bs.iter().zip(&e.segs).filter(|(_, s)| s.write).map(|(b, _)| unsafe { std::slice::from_raw_parts_mut(b.ptr, b.len) }).collect();
        // SAFETY: same buffers as passed to add.
        match unsafe { q.pop_used(tok, &ins, &mut outs) } {
            Ok(len) => {
                let want: u32 = e.segs.iter().filter(|s| s.write).map(|s| s.len).sum();
                if len != want {
                    fail = Some(("completion_length".into(), format!("pop_used returned {} for add #{}, device wrote {}", len, ai, want)));
                }
                for (b, s) in bs.iter().zip(&e.segs) {
                    if s.write {
                        for k in 0..b.len {
                            // SAFETY: inside the allocation; the completion has been consumed, so the device's bytes must be visible.
                            let v = unsafe { b.ptr.add(k).read() };
                            if v != e.tag ^ 0xa5 ^ (k as u8) {
                                fail = Some(("completion_data_not_visible".into(), format!("add #{}: byte {} of a device-written buffer reads {:#x} after pop_used", ai, k, v)));
                            }
                        }
                        sh.inc("t_bytes_checked", b.len as u64);
                    }
                }
                tok2add[tok as usize] = None;
                free += descs(e);
                popped += 1;
                sh.inc("t_pops", 1);
            }
            Err(er) => fail = Some(("pop_failed".into(), format!("pop_used({}) failed: {:?}", tok, er))),
        }
        shared.driver_ops.fetch_add(1, Ordering::Relaxed);
    }
    shared.stop.store(true, Ordering::Relaxed);
    let _ = dev.join();
    let errs = shared.errors.lock().unwrap().clone();
    let trace = shared.trace.lock().unwrap().clone();
    let mut h = Hash64::new();
    let mut last = (u64::MAX, 0u16);
    let mut points = 0u64;
    for &(ops, a) in &trace {
        if (ops, a) != last {
            h.u64(ops);
            h.u64(a as u64);
            last = (ops, a);
            points += 1;
        }
    }
    sh.inc("t_device_observations", trace.len() as u64);
    sh.inc("t_distinct_observation_points", points);
    sh.evaluations += 1;
    if popped == adds && errs.is_empty() && fail.is_none() {
        sh.nontrivial.insert(h.finish() ^ case.wrapping_mul(0x9e3779b97f4a7c15));
        sh.inc(if indirect { "t_cases_indirect" } else { "t_cases_direct" }, 1);
    }
    let replay = J::obj().with("kind", J::s("thread")).with("case", J::u(case)).with("n", J::us(N)).with("indirect", J::Bool(indirect));
    for m in errs {
        sh.violation(Violation { prop: "C02".into(), signature: "C02/device_thread_saw_incomplete_entry".into(), detail: m, replay: replay.clone() });
    }
    if let Some((rule, d)) = fail {
        sh.violation(Violation { prop: "C02".into(), signature: format!("C02/thread/{}", rule), detail: d, replay: replay.clone() });
    }
    if sh.want_sample() {
        sh.sample(J::obj().with("layer", J::s("device thread")).with("n", J::us(N)).with("indirect", J::Bool(indirect)).with("adds", J::us(adds)).with("device_polls", J::us(trace.len())));
    }
    drop(q);
    drop(store);
}

pub fn run(args: &Args, sh: &mut Shard) {
    let miri = args.build.starts_with("miri");
    let cases = if let Some(r) = &args.replay { vec![r.get("case").and_then(|c| c.as_u64()).unwrap_or(0)] } else {
        let per = args.scaled(if miri { 3 } else { 200 });
        (0..per).map(|i| args.shard + args.nshards * i).collect()
    };
    for case in cases {
        let indirect = (case / 3) % 2 == 1;
        match case % 3 {
            0 => one_case::<2>(args, case, indirect, sh),
            1 => one_case::<4>(args, case, indirect, sh),
            _ => one_case::<8>(args, case, indirect, sh),
        }
        if sh.has_own_violation() {
            break;
        }
    }
}
