//! C05 — no lost wake-ups.
//!  (a) should_notify() against the specification predicate, exhaustively over the index space for
//!      small batches, sampled for large ones, one *real* check per instance;
//!  (b) avail.flags / used_event as the device reads them (qcore histories, tagged C05);
//!  (c) blocking helper co-simulation under three device servicing policies.
use super::Args;
use crate::hooks;
use crate::json::J;
use crate::mem::{self, FastHal, FastQ, HalMode, LedgerHal};
use crate::qcore::{self, QCfg};
use crate::report::{Shard, Violation};
use crate::rng::{Hash64, Rng};
use crate::vqdev::VqDev;
use crate::xport_model::{ModelState, ModelTransport};
use std::cell::RefCell;
use std::collections::VecDeque;
use std::panic::{AssertUnwindSafe, catch_unwind};
use std::rc::Rc;
use virtio_drivers::queue::VirtQueue;
use virtio_drivers::transport::DeviceType;

static BUF: [u8; 8] = [7; 8];

struct SweepQ<const N: usize> {
    q: VirtQueue<FastHal, N>,
    fq: FastQ,
    used_idx: u16,
    out: VecDeque<u16>,
    _t: ModelTransport,
}

impl<const N: usize> SweepQ<N> {
    fn new(event_idx: bool) -> SweepQ<N> {
        mem::reset(HalMode::Bounce);
        hooks::clear();
        let st = ModelState::new(DeviceType::Block, 0);
        let mut t = ModelTransport::new(&st);
        let q = VirtQueue::<FastHal, N>::new(&mut t, 0, false, event_idx, false).expect("queue");
        let r = *st.borrow().queues.get(&0).unwrap();
        let fq = FastQ::new(r.desc, r.driver, r.device, N as u16).expect("queue memory");
        SweepQ { q, fq, used_idx: 0, out: VecDeque::new(), _t: t }
    }
    #[inline]
    fn add(&mut self) {
        if self.out.len() == N {
            self.drain();
        }
        // SAFETY: BUF is static and never written.
        let t = unsafe { self.q.add(&[&BUF], &mut []) }.expect("add");
        self.out.push_back(t);
    }
    fn drain(&mut self) {
        while let Some(t) = self.out.pop_front() {
            self.fq.complete(&mut self.used_idx, t, 0);
            // SAFETY: same buffer as added.
            unsafe { self.q.pop_used(t, &[&BUF], &mut []) }.expect("pop");
        }
    }
}

#[derive(Clone, Copy, Debug)]
struct Item {
    n: usize,
    b: usize,
    k: usize,
    iters: u32,
}

fn need_event(e: u16, new: u16, old: u16) -> bool {
    VqDev::vring_need_event(e, new, old)
}

/// One pass: `iters` instances with batch `b`, event index = old + k, on a queue of size N.
fn sweep_pass<const N: usize>(it: Item, start_adds: u32, sh: &mut Shard) -> Option<(u16, u16, u16)> {
    let mut s = SweepQ::<N>::new(true);
    for _ in 0..start_adds {
        s.add();
    }
    let filler = if it.b % 2 == 0 { 1 } else { 2 };
    let mut wrapped = 0u64;
    let mut needed = 0u64;
    let mut extra = 0u64;
    let mut first_bad = None;
    for _ in 0..it.iters {
        for _ in 0..filler {
            s.add();
        }
        if s.out.len() + it.b > N {
            s.drain();
        }
        let _ = s.q.should_notify(); // a real check: "since the driver last checked" starts here
        let old = s.fq.avail_idx();
        let e = old.wrapping_add(it.k as u16);
        s.fq.set_avail_event(e);
        for _ in 0..it.b {
            // capacity was ensured above, so no drain happens inside the batch
            // SAFETY: BUF is static and never written.
            let t = unsafe { s.q.add(&[&BUF], &mut []) }.expect("add");
            s.out.push_back(t);
        }
        let new = s.fq.avail_idx();
        let r = s.q.should_notify();
        let need = need_event(e, new, old);
        if new < old {
            wrapped += 1;
        }
        if need {
            needed += 1;
            if !r && first_bad.is_none() {
                first_bad = Some((old, new, e));
            }
        } else if r {
            extra += 1;
        }
    }
    s.drain();
    sh.inc("eventidx_instances", it.iters as u64);
    sh.inc("eventidx_needed", needed);
    sh.inc("eventidx_batch_straddles_wrap", wrapped);
    sh.inc("eventidx_extra_notifications", extra);
    sh.max("max_batch", it.b as u64);
    first_bad
}

/// Not-needed side, for the record only (event index just outside the batch): counts answers.
fn sweep_outside<const N: usize>(b: usize, iters: u32, sh: &mut Shard) {
    let mut s = SweepQ::<N>::new(true);
    let mut yes = 0u64;
    for i in 0..iters {
        s.add();
        if s.out.len() + b > N {
            s.drain();
        }
        let _ = s.q.should_notify();
        let old = s.fq.avail_idx();
        let e = if i % 2 == 0 { old.wrapping_sub(1) } else { old.wrapping_add(b as u16) };
        s.fq.set_avail_event(e);
        for _ in 0..b {
            // SAFETY: BUF is static and never written.
            let t = unsafe { s.q.add(&[&BUF], &mut []) }.expect("add");
            s.out.push_back(t);
        }
        if s.q.should_notify() {
            yes += 1;
        }
    }
    s.drain();
    sh.inc("eventidx_outside_batch_instances", iters as u64);
    sh.inc("eventidx_outside_batch_notified", yes);
}

/// Flag mode: the answer must be exactly "flag clear".
fn sweep_flags<const N: usize>(iters: u32, sh: &mut Shard) -> Option<(u16, u16, bool)> {
    let mut s = SweepQ::<N>::new(false);
    let mut bad = None;
    for i in 0..iters {
        let fl = ((i >> 3) ^ i) as u16 & 1;
        s.fq.set_used_flags(fl);
        s.add();
        let r = s.q.should_notify();
        if r != (fl == 0) && bad.is_none() {
            bad = Some((s.fq.avail_idx(), fl, r));
        }
    }
    s.drain();
    sh.inc("flagmode_instances", iters as u64);
    bad
}

fn dispatch_pass(it: Item, start: u32, sh: &mut Shard) -> Option<(u16, u16, u16)> {
    macro_rules! go {
        ($($n:literal),*) => {
            match it.n {
                $($n => sweep_pass::<$n>(it, start, sh),)*
                _ => panic!("size"),
            }
        };
    }
    go!(1, 2, 4, 8, 16, 32, 64, 128, 256, 512, 1024, 2048, 4096, 8192, 16384, 32768)
}

fn sweep_items(args: &Args) -> Vec<Item> {
    let mut v = vec![];
    let bmax: usize = if args.is_miri() { 2 } else if args.thorough() { 32 } else { 12 };
    let full = if args.is_miri() { 24 } else { 65536 };
    for b in 1..=bmax {
        let n = b.next_power_of_two();
        for k in 0..b {
            v.push(Item { n, b, k, iters: full });
        }
    }
    if args.is_miri() {
        return v;
    }
    // also the same small batches on much larger queues (only the extreme offsets)
    for &n in &[64usize, 1024, 32768] {
        for b in [1usize, 2, 3, 7] {
            for k in [0, b - 1] {
                v.push(Item { n, b, k, iters: if args.thorough() { 65536 } else { 16384 } });
            }
        }
    }
    // large batches up to the queue size: sampled instances (every pass crosses the wrap many times)
    let big: &[usize] = if args.thorough() { &[33, 48, 64, 100, 128, 255, 256, 1000, 1024, 4096, 8191, 8192, 16384, 32767, 32768] } else { &[33, 64, 255, 1024, 8192, 32768] };
    for &b in big {
        let n = b.next_power_of_two();
        let iters = ((if args.thorough() { 24_000_000 } else { 3_000_000 }) / (b as u32 + 2)).clamp(64, 65536);
        for k in [0, 1, b / 2, b - 2, b - 1] {
            v.push(Item { n, b, k, iters });
        }
    }
    v
}

// ---------------------------------------------------------------------------------------------
// (c) blocking helper co-simulation

#[derive(Clone, Copy, Debug, PartialEq, Eq)]
enum Policy {
    OnNotify,
    Polling,
    Late(u32),
}

struct Blk {
    dev: VqDev,
    st: Rc<RefCell<ModelState>>,
    policy: Policy,
    event_idx: bool,
    notified: bool,
    countdown: Option<u32>,
    served: bool,
    spins: u64,
    viol: Option<(&'static str, String)>,
    pattern: u8,
    recorded_len: u32,
}

impl Blk {
    fn arm(&mut self) {
        // what a specification-following device with this policy leaves in the used ring between requests
        match (self.policy, self.event_idx) {
            (Policy::Polling, true) => {
                let _ = self.dev.set_avail_event(self.dev.next_avail.wrapping_add(0x4000));
            }
            (Policy::Polling, false) => {
                let _ = self.dev.set_used_flags(1);
            }
            (_, true) => {
                let _ = self.dev.set_avail_event(self.dev.next_avail);
            }
            (_, false) => {
                let _ = self.dev.set_used_flags(0);
            }
        }
    }
    fn serve(&mut self) {
        match self.dev.fetch() {
            Ok(Some(ch)) => {
                let w = ch.writable_len();
                let data = vec![self.pattern; w];
                let _ = self.dev.write_payload(&ch, &data);
                self.recorded_len = w as u32;
                let _ = self.dev.complete(ch.head, w as u32);
                self.served = true;
                self.arm();
            }
            Ok(None) => {}
            Err(e) => self.viol = Some(("C01/chain_malformed", e)),
        }
    }
    fn on_spin(&mut self) {
        self.spins += 1;
        if self.st.borrow_mut().take_notifications().contains(&0) {
            self.notified = true;
            if self.policy == Policy::Polling && !self.event_idx {
                self.viol = Some(("C05/notified_although_suppressed", "driver notified the device although used.flags had NO_NOTIFY set".into()));
            }
        }
        if self.served {
            self.viol = Some(("C05/still_waiting_after_served", format!("blocking helper kept spinning after the device published the completion (spin #{})", self.spins)));
            panic!("monitor: still waiting after served");
        }
        let pend = self.dev.pending().unwrap_or(0);
        match self.policy {
            Policy::Polling => {
                if pend > 0 {
                    self.serve();
                }
            }
            Policy::OnNotify => {
                if pend > 0 && self.notified {
                    self.serve();
                } else if pend > 0 {
                    self.viol = Some(("C05/wait_without_notification", "blocking helper waits for a serve-on-notify device that was never notified about the request".into()));
                    panic!("monitor: lost wake-up");
                }
            }
            Policy::Late(k) => {
                if pend > 0 && !self.notified {
                    self.viol = Some(("C05/wait_without_notification", "blocking helper waits for a serve-on-notify (late) device that was never notified about the request".into()));
                    panic!("monitor: lost wake-up");
                }
                if pend > 0 {
                    let c = self.countdown.get_or_insert(k);
                    if *c == 0 {
                        self.countdown = None;
                        self.serve();
                    } else {
                        *c -= 1;
                    }
                }
            }
        }
        if self.spins > 200_000 {
            self.viol = Some(("INCONCLUSIVE/watchdog", "spin watchdog".into()));
            panic!("monitor: watchdog");
        }
    }
}

/// One co-simulation case on the raw queue.  Returns (requests served, hash).
fn blocking_case(size: usize, cfg_bits: u64, policy: Policy, pre_rounds: u32, requests: u32, rng: &mut Rng, sh: &mut Shard) -> Result<u64, (String, String)> {
    let event_idx = cfg_bits & 1 != 0;
    let indirect = cfg_bits & 2 != 0;
    mem::reset(HalMode::Bounce);
    hooks::clear();
    let st = ModelState::new(DeviceType::Block, 0);
    let mut t = ModelTransport::new(&st);
    let mut q = qcore::make_queue(size, &mut t, 0, indirect, event_idx, false).map_err(|e| ("C06/queue_creation_failed".to_string(), format!("{:?}", e)))?;
    let reg = *st.borrow().queues.get(&0).unwrap();
    let blk = Rc::new(RefCell::new(Blk {
        dev: VqDev::new(0, reg, indirect, event_idx),
        st: st.clone(),
        policy,
        event_idx,
        notified: false,
        countdown: None,
        served: false,
        spins: 0,
        viol: None,
        pattern: 0,
        recorded_len: 0,
    }));
    blk.borrow_mut().arm();
    let b2 = blk.clone();
    hooks::set_spin(move || b2.borrow_mut().on_spin());
    let total = pre_rounds + requests;
    let mut served = 0u64;
    for i in 0..total {
        let detailed = i >= pre_rounds;
        // respect the precondition: at most `size` buffers per chain
        let n_in = if detailed { (rng.below(3) as usize).min(size) } else { 1 };
        let n_out = if detailed { (rng.below(3) as usize + (n_in == 0) as usize).min(size - n_in).max((n_in == 0) as usize) } else { 0 };
        let ins: Vec<Vec<u8>> = (0..n_in).map(|_| vec![0x11u8; rng.range(1, 40) as usize]).collect();
        let mut outs: Vec<Vec<u8>> = (0..n_out).map(|_| vec![0xEEu8; rng.range(1, 40) as usize]).collect();
        let pat = (i as u8) | 1;
        {
            let mut b = blk.borrow_mut();
            b.notified = false;
            b.served = false;
            b.spins = 0;
            b.countdown = None;
            b.pattern = pat;
            b.st.borrow_mut().take_notifications();
        }
        let res = {
            let in_r: Vec<&[u8]> = ins.iter().map(|v| v.as_slice()).collect();
            let outs_r = &mut outs;
            let qq = &mut q;
            let tt = &mut t;
            catch_unwind(AssertUnwindSafe(move || {
                let mut out_r: Vec<&mut [u8]> = outs_r.iter_mut().map(|v| v.as_mut_slice()).collect();
                qq.add_notify_wait_pop(&in_r, &mut out_r, tt)
            }))
        };
        let mut b = blk.borrow_mut();
        if let Some((sig, d)) = b.viol.take() {
            return Err((sig.to_string(), format!("{} [N={} event_idx={} indirect={} policy={:?} request #{} avail_idx={}]", d, size, event_idx, indirect, policy, i, b.dev.next_avail)));
        }
        match res {
            Err(_) => return Err(("C05/panic_in_blocking_helper".into(), format!("add_notify_wait_pop panicked [N={} policy={:?} request #{}]", size, policy, i))),
            Ok(Err(e)) => return Err(("C05/blocking_helper_error".into(), format!("add_notify_wait_pop returned {:?} although the device served the request [policy={:?} request #{}]", e, policy, i))),
            Ok(Ok(len)) => {
                if !b.served {
                    return Err(("C05/returned_without_service".into(), format!("add_notify_wait_pop returned Ok({}) but the device never served request #{}", len, i)));
                }
                if len != b.recorded_len {
                    return Err(("C03/wrong_length_reported".into(), format!("returned {} but the device recorded {}", len, b.recorded_len)));
                }
                if outs.iter().any(|o| o.iter().any(|x| *x != pat)) {
                    return Err(("C04/device_bytes_missing_after_pop".into(), "writable buffer does not hold the device's bytes after the blocking helper returned".into()));
                }
                // a late notification (after the request was served) may still arrive: harmless
                served += 1;
                if detailed {
                    sh.inc("blocking_requests_checked", 1);
                    sh.inc("blocking_spin_rounds", b.spins);
                    if b.notified {
                        sh.inc("blocking_requests_notified", 1);
                    }
                }
            }
        }
    }
    hooks::clear();
    drop(q);
    drop(t);
    Ok(served)
}

pub fn run(args: &Args, sh: &mut Shard) {
    // ---- replay
    if let Some(r) = &args.replay {
        let kind = r.get("kind").and_then(|k| k.as_str()).unwrap_or("");
        sh.evaluations = 1;
        match kind {
            "sweep" => {
                let it = Item { n: r.get("n").unwrap().as_u64().unwrap() as usize, b: r.get("b").unwrap().as_u64().unwrap() as usize, k: r.get("k").unwrap().as_u64().unwrap() as usize, iters: r.get("iters").unwrap().as_u64().unwrap() as u32 };
                let start = r.get("start").unwrap().as_u64().unwrap() as u32;
                if let Some((old, new, e)) = dispatch_pass(it, start, sh) {
                    println!("REPLAY sweep {:?}: old={} new={} avail_event={} => needed, should_notify() = false", it, old, new, e);
                    sh.violation(viol_sweep(args, it, start, old, new, e));
                } else {
                    println!("REPLAY sweep {:?}: no violation", it);
                }
            }
            "history" => {
                let case = r.get("case").unwrap().as_u64().unwrap();
                history_case(args, case, sh, true);
            }
            "blocking" => {
                let case = r.get("case").unwrap().as_u64().unwrap();
                blocking_one(args, case, sh);
            }
            _ => sh.inconclusive.push("unknown replay kind".into()),
        }
        return;
    }

    // ---- (a) index-space sweeps
    let items = sweep_items(args);
    let mut rng = Rng::derive(args.seed, 0xC05, args.shard, 0);
    for (i, it) in items.iter().enumerate() {
        if i as u64 % args.nshards != args.shard {
            continue;
        }
        // phase: a seed-dependent number of initial single adds
        let start = (Rng::derive(args.seed, 0xC05A, i as u64, 0).below(64)) as u32;
        let bad = dispatch_pass(*it, start, sh);
        sh.evaluations += it.iters as u64;
        let mut h = Hash64::new();
        h.u64(it.n as u64 | (it.b as u64) << 20 | (it.k as u64) << 40);
        // every instance of a pass is a distinct (old,new,event) triple; counted per pass via its key
        sh.nontrivial.insert(h.finish());
        sh.inc("sweep_passes", 1);
        if it.iters == 65536 {
            sh.inc("sweep_passes_covering_all_65536_indices", 1);
        }
        if sh.want_sample() {
            sh.sample(J::obj().with("kind", J::s("event_idx_sweep_pass")).with("queue_size", J::us(it.n)).with("batch", J::us(it.b)).with("event_offset_in_batch", J::us(it.k)).with("instances", J::u(it.iters as u64)).with("start_phase", J::u(start as u64)));
        }
        if let Some((old, new, e)) = bad {
            sh.violation(viol_sweep(args, *it, start, old, new, e));
        }
    }
    if !args.is_miri() && args.shard == 0 {
        sweep_outside::<8>(3, 65536, sh);
        sweep_outside::<1>(1, 65536, sh);
    }
    if args.shard == 1 % args.nshards {
        let it = if args.is_miri() { 64 } else { 3 * 65536 };
        if let Some((idx, fl, r)) = sweep_flags::<4>(it, sh) {
            sh.violation(Violation { prop: "C05".into(), signature: "C05/flag_mode_notify_wrong".into(), detail: format!("avail idx {} used.flags={} should_notify()={}", idx, fl, r), replay: J::obj().with("kind", J::s("flags")) });
        }
        sh.evaluations += it as u64;
    }

    // ---- (b) qcore histories with frequent notification checks
    let ncases = args.scaled(if args.is_miri() { 16 } else if args.thorough() { 16000 } else { 1600 });
    let mut case = args.shard;
    while case < ncases {
        history_case(args, case, sh, false);
        case += args.nshards;
    }

    // ---- (c) blocking helper co-simulation
    let nblk = args.scaled(if args.is_miri() { 16 } else if args.thorough() { 4800 } else { 640 });
    let mut case = args.shard;
    while case < nblk {
        blocking_one(args, case, sh);
        case += args.nshards;
    }
    let _ = &mut rng;
    if !args.is_miri() && items.iter().all(|i| i.iters > 0) {
        sh.notes.insert("exhaustive_subspace".into(), J::s(format!("event-idx: every (new index in 0..65536) x (batch 1..={}) x (every event index inside the batch) with one real add sequence and one real should_notify() call each", if args.thorough() { 32 } else { 12 })));
    }
    if !sh.has_own_violation() {
        for (k, min) in [("eventidx_needed", 1000u64), ("blocking_requests_checked", 10), ("used_event_checks", 10)] {
            let min = if args.is_miri() { 1 } else { min };
            let have = sh.counters.get(k).copied().unwrap_or(0);
            // thresholds apply to the merged run; a single shard may legitimately have none of a kind
            if have < min && args.nshards == 1 {
                sh.inconclusive.push(format!("observation threshold not met: {} = {} < {}", k, have, min));
            }
        }
    }
}

fn viol_sweep(args: &Args, it: Item, start: u32, old: u16, new: u16, e: u16) -> Violation {
    let wrapped = new < old;
    Violation {
        prop: "C05".into(),
        signature: if wrapped { "C05/need_event_but_no_notify/wrapped".into() } else { "C05/need_event_but_no_notify".into() },
        detail: format!("event-idx: old={} new={} avail_event={} (batch {} on N={}) => vring_need_event is true, should_notify() = false", old, new, e, it.b, it.n),
        replay: J::obj().with("kind", J::s("sweep")).with("n", J::us(it.n)).with("b", J::us(it.b)).with("k", J::us(it.k)).with("iters", J::u(it.iters as u64)).with("start", J::u(start as u64)).with("build", J::s(args.build.clone())),
    }
}

fn history_case(args: &Args, case: u64, sh: &mut Shard, verbose: bool) {
    let mut rng = Rng::derive(args.seed, 0xC05B, case, 0);
    let mut k = qcore::default_knobs();
    k.steps = if args.is_miri() { 80 } else { rng.range(100, 1500) as usize };
    k.max_bufs = 4;
    k.max_len = 24;
    let mut x = case;
    let flags = crate::rng::splitmix64(&mut x) % 16;
    let size = if args.is_miri() { 4 } else { *rng.pick(&[1usize, 2, 4, 8, 16, 64, 256]) };
    let cfg = QCfg { size, indirect: flags & 1 != 0, event_idx: flags & 2 != 0, ap: flags & 4 != 0, legacy: flags & 8 != 0 };
    let out = qcore::run_history(cfg, &k, rng.next(), verbose, true);
    sh.evaluations += 1;
    for (kk, v) in &out.counters {
        if matches!(*kk, "should_notify_checks" | "should_notify_needed" | "extra_notifications" | "set_dev_notify_checks" | "used_event_checks" | "pops_ok" | "adds_ok") {
            sh.inc(kk, *v);
        }
    }
    if *out.counters.get("should_notify_checks").unwrap_or(&0) > 0 {
        sh.nontrivial.insert(out.hash);
    }
    for v in &out.viol {
        if verbose {
            println!("  VIOLATED {}/{}: {}", v.prop, v.rule, v.detail);
        }
        sh.violation(Violation { prop: v.prop.into(), signature: format!("{}/{}", v.prop, v.rule), detail: format!("{} [{}]", v.detail, cfg.describe()), replay: J::obj().with("kind", J::s("history")).with("case", J::u(case)).with("build", J::s(args.build.clone())) });
    }
}

fn blocking_one(args: &Args, case: u64, sh: &mut Shard) {
    let mut rng = Rng::derive(args.seed, 0xC05C, case, 0);
    let policy = match case % 3 {
        0 => Policy::OnNotify,
        1 => Policy::Polling,
        _ => Policy::Late(rng.range(1, 5) as u32),
    };
    let bits = (case / 3) % 4;
    let size = if args.is_miri() { 4 } else { *rng.pick(&[1usize, 2, 4, 16, 64]) };
    // start index: 0, or just before the 16-bit wrap (so that the requests straddle it)
    let pre = if args.is_miri() { 0 } else { match rng.below(4) { 0 => 0, 1 => 65536 - rng.range(1, 20) as u32, 2 => 65536 + 65536 - rng.range(1, 20) as u32, _ => rng.below(70000) as u32 } };
    let reqs = if args.is_miri() { 6 } else { 40 };
    sh.evaluations += 1;
    match blocking_case(size, bits, policy, pre, reqs, &mut rng, sh) {
        Ok(_) => {
            let mut h = Hash64::new();
            h.u64(case ^ 0xb10c);
            h.u64(pre as u64);
            sh.nontrivial.insert(h.finish());
            sh.inc(match policy { Policy::OnNotify => "blocking_cases_serve_on_notify", Policy::Polling => "blocking_cases_polling", Policy::Late(_) => "blocking_cases_late" }, 1);
            if pre > 60000 {
                sh.inc("blocking_cases_across_index_wrap", 1);
            }
            if sh.samples.len() < sh.max_samples + 1 && case < 3 {
                sh.samples.push(J::obj().with("kind", J::s("blocking_helper_cosimulation")).with("policy", J::s(format!("{:?}", policy))).with("queue_size", J::us(size)).with("event_idx", J::Bool(bits & 1 != 0)).with("indirect", J::Bool(bits & 2 != 0)).with("requests_before", J::u(pre as u64)).with("requests_checked", J::u(reqs as u64)));
            }
        }
        Err((sig, d)) => {
            if sig.starts_with("INCONCLUSIVE") {
                sh.inconclusive.push(d);
            } else {
                let prop = sig[..3].to_string();
                sh.violation(Violation { prop, signature: sig, detail: d, replay: J::obj().with("kind", J::s("blocking")).with("case", J::u(case)).with("build", J::s(args.build.clone())) });
            }
        }
    }
}

#[allow(dead_code)]
fn _unused(_: LedgerHal) {}
