//! C06 — queue memory layout, registration and release: exhaustive over
//! 16 sizes x {modern, legacy} x 8 flag combinations x queue_used in {T,F} x 6 max-size answers.
use super::Args;
use crate::evlog::{self, Ev};
use crate::hooks;
use crate::json::J;
use crate::mem::{self, Dir, HalMode};
use crate::qcore::{self, SIZES};
use crate::report::{Shard, Violation};
use crate::rng::{Hash64, Rng};
use crate::vqdev::VqDev;
use crate::xport_model::{ModelState, ModelTransport};
use std::panic::{AssertUnwindSafe, catch_unwind};
use virtio_drivers::Error;
use virtio_drivers::transport::DeviceType;

#[derive(Clone, Copy, Debug)]
pub struct Cfg {
    pub size: usize,
    pub legacy: bool,
    pub indirect: bool,
    pub event_idx: bool,
    pub ap: bool,
    pub used: bool,
    pub max: u32,
    pub qidx: u16,
}

impl Cfg {
    fn json(&self) -> J {
        J::obj()
            .with("size", J::us(self.size))
            .with("legacy", J::Bool(self.legacy))
            .with("indirect", J::Bool(self.indirect))
            .with("event_idx", J::Bool(self.event_idx))
            .with("access_platform", J::Bool(self.ap))
            .with("transport_says_queue_used", J::Bool(self.used))
            .with("transport_max_queue_size", J::u(self.max as u64))
            .with("queue_index", J::u(self.qidx as u64))
    }
}

pub fn all_cfgs() -> Vec<Cfg> {
    let mut v = vec![];
    for &size in SIZES.iter() {
        for legacy in [false, true] {
            for flags in 0..8u32 {
                for used in [false, true] {
                    let n = size as u32;
                    for (mi, max) in [0u32, n / 2, n - 1, n, n + 1, 65535 + (flags + 1) * 7919].into_iter().enumerate() {
                        v.push(Cfg { size, legacy, indirect: flags & 1 != 0, event_idx: flags & 2 != 0, ap: flags & 4 != 0, used, max, qidx: ((mi as u16) * 3 + flags as u16) % 5 });
                    }
                }
            }
        }
    }
    v
}

fn ranges_overlap(a: (u64, u64), b: (u64, u64)) -> bool {
    a.0 < b.0 + b.1 && b.0 < a.0 + a.1
}

/// Returns violations as (rule, detail).
pub fn check_cfg(c: Cfg, rng: &mut Rng, sh: &mut Shard) -> Vec<(&'static str, String)> {
    let mut out: Vec<(&'static str, String)> = vec![];
    mem::reset(HalMode::Bounce);
    hooks::clear();
    evlog::enable(true);
    mem::with(|l| l.expect_ap = Some(c.ap));
    let st = ModelState::new(DeviceType::Block, 0);
    {
        let mut s = st.borrow_mut();
        s.legacy = c.legacy;
        s.queue_used_answer = Some(c.used);
        s.default_max_queue = c.max;
    }
    let mut t = ModelTransport::new(&st);
    let expect_ok = !c.used && c.max >= c.size as u32;
    let r = catch_unwind(AssertUnwindSafe(|| qcore::make_queue(c.size, &mut t, c.qidx, c.indirect, c.event_idx, c.ap)));
    let log = evlog::take();
    let allocs: Vec<&Ev> = log.iter().filter(|e| matches!(e, Ev::DmaAlloc { .. })).collect();
    let sets: Vec<&Ev> = log.iter().filter(|e| matches!(e, Ev::QueueSet { .. })).collect();
    let q = match r {
        Err(_) => {
            out.push(("panic_in_queue_new", "VirtQueue::new panicked".into()));
            evlog::enable(false);
            return out;
        }
        Ok(q) => q,
    };
    match (&q, expect_ok) {
        (Err(e), false) => {
            sh.inc("refusals_checked", 1);
            let want = if c.used { Error::AlreadyUsed } else { Error::InvalidParam };
            if *e != want {
                sh.inc("refusal_other_error_variant", 1);
            }
            if !allocs.is_empty() || !sets.is_empty() {
                out.push(("refused_creation_side_effect", format!("creation refused ({:?}) but {} dma_alloc and {} queue_set calls were made", e, allocs.len(), sets.len())));
            }
            if mem::with(|l| l.live_regions()) != 0 {
                out.push(("refused_creation_leak", "DMA memory left allocated after a refused creation".into()));
            }
        }
        (Ok(_), false) => out.push(("creation_not_refused", format!("queue created although the transport reported used={} max={} for size {}", c.used, c.max, c.size))),
        (Err(e), true) => out.push(("creation_refused", format!("creation failed with {:?} although used=false and max={} >= {}", e, c.max, c.size))),
        (Ok(_), true) => {
            sh.inc("creations_checked", 1);
            if sets.len() != 1 {
                out.push(("queue_set_count", format!("{} queue_set calls", sets.len())));
            }
            // every dma_alloc must precede queue_set
            let set_pos = log.iter().position(|e| matches!(e, Ev::QueueSet { .. }));
            if let Some(p) = set_pos {
                if log.iter().skip(p).any(|e| matches!(e, Ev::DmaAlloc { .. })) {
                    out.push(("alloc_after_queue_set", "dma_alloc after queue_set".into()));
                }
            }
            if let Some(Ev::QueueSet { q: qi, size, desc, driver, device }) = sets.first().copied() {
                let n = c.size as u64;
                if *qi != c.qidx || *size as u64 != n {
                    out.push(("queue_set_args", format!("queue_set(queue={}, size={}) for queue {} of size {}", qi, size, c.qidx, n)));
                }
                let (dl, al, ul) = (16 * n, 6 + 2 * n, 6 + 8 * n);
                if desc % 16 != 0 || driver % 2 != 0 || device % 4 != 0 {
                    out.push(("misaligned_area", format!("desc={:#x} driver={:#x} device={:#x}", desc, driver, device)));
                }
                let parts = [("descriptor", *desc, dl, false), ("driver", *driver, al, false), ("device", *device, ul, true)];
                for (name, addr, len, dev_writes) in parts {
                    match mem::with(|l| l.region_of(addr, len as usize)) {
                        None => out.push(("area_outside_dma", format!("{} area [{:#x},+{}) is not wholly inside one live DMA region", name, addr, len))),
                        Some((_, _, dir)) => {
                            let ok = if dev_writes { dir != Dir::ToDev } else { dir != Dir::FromDev };
                            if !ok {
                                out.push(("area_direction", format!("{} area lies in a DMA region allocated as {}", name, dir.name())));
                            }
                        }
                    }
                }
                if ranges_overlap((*desc, dl), (*driver, al)) || ranges_overlap((*desc, dl), (*device, ul)) || ranges_overlap((*driver, al), (*device, ul)) {
                    out.push(("areas_overlap", format!("desc={:#x}+{} driver={:#x}+{} device={:#x}+{}", desc, dl, driver, al, device, ul)));
                }
                // rings must be zero when registered (the descriptor table is linked afterwards; that is allowed)
                let mut a = vec![0u8; al as usize];
                let mut u = vec![0u8; ul as usize];
                let _ = mem::with(|l| l.dev_read(*driver, &mut a));
                let _ = mem::with(|l| l.dev_read(*device, &mut u));
                if a.iter().any(|b| *b != 0) || u.iter().any(|b| *b != 0) {
                    out.push(("rings_not_zero", "available or used ring not zero right after creation".into()));
                }
                if c.legacy {
                    let want_driver = desc + dl;
                    let want_device = (desc + dl + al + 4095) & !4095;
                    let one_region = mem::with(|l| l.region_of(*desc, (want_device - desc + ul) as usize)).is_some();
                    if desc % 4096 != 0 || *driver != want_driver || *device != want_device || !one_region || allocs.len() != 1 {
                        out.push(("legacy_layout", format!("legacy layout: desc={:#x} driver={:#x} (want {:#x}) device={:#x} (want {:#x}) contiguous={} allocations={}", desc, driver, want_driver, device, want_device, one_region, allocs.len())));
                    }
                    sh.inc("legacy_layouts_checked", 1);
                }
            }
        }
    }
    // light use (recycled descriptors, possibly chains left outstanding), then drop and audit release
    if let Ok(mut q) = q {
        evlog::take();
        let reg = st.borrow().queues.get(&c.qidx).copied();
        if let Some(reg) = reg {
            let mut dev = VqDev::new(c.qidx, reg, c.indirect, c.event_idx);
            let rounds = rng.below(4) as usize;
            let keep = rng.below(2) as usize; // chains left outstanding at drop
            let bufs: Vec<Vec<u8>> = (0..rounds + keep).map(|i| vec![i as u8; 8]).collect();
            let mut toks = vec![];
            for (i, b) in bufs.iter().enumerate() {
                if i >= c.size {
                    break;
                }
                // SAFETY: bufs outlive the queue (dropped after it).
                if let Ok(t) = unsafe { q.add(&[b.as_slice()], &mut []) } {
                    toks.push((t, i));
                }
            }
            let n_complete = toks.len().saturating_sub(keep);
            for (t, i) in toks.iter().take(n_complete) {
                let _ = dev.fetch_head();
                let _ = dev.complete(*t, 0);
                // SAFETY: same buffer as added under this token.
                let _ = unsafe { q.pop_used(*t, &[bufs[*i].as_slice()], &mut []) };
            }
            if keep > 0 && toks.len() > n_complete {
                sh.inc("dropped_with_chain_outstanding", 1);
            }
            let live_before = mem::with(|l| l.live_regions());
            let dr = catch_unwind(AssertUnwindSafe(move || drop(q)));
            if dr.is_err() {
                out.push(("panic_in_queue_drop", "dropping the queue panicked".into()));
            }
            let log = evlog::take();
            let deallocs = log.iter().filter(|e| matches!(e, Ev::DmaDealloc { .. })).count();
            let live_after = mem::with(|l| l.live_regions());
            if live_after != 0 || deallocs != live_before {
                out.push(("dma_release_count", format!("{} regions live before drop, {} dma_dealloc calls, {} still live afterwards", live_before, deallocs, live_after)));
            }
            sh.inc("releases_audited", 1);
            drop(bufs);
        }
    }
    for v in mem::with(|l| l.take_violations()) {
        out.push((v.rule, v.detail));
    }
    drop(t);
    evlog::enable(false);
    out
}

pub fn run(args: &Args, sh: &mut Shard) {
    let cfgs = all_cfgs();
    if let Some(r) = &args.replay {
        let i = r.get("index").and_then(|x| x.as_u64()).unwrap_or(0) as usize;
        let mut rng = Rng::derive(args.seed, 0xC06, i as u64, 0);
        let vs = check_cfg(cfgs[i], &mut rng, sh);
        println!("REPLAY config #{} {:?}: {:?}", i, cfgs[i], vs);
        for (rule, d) in vs {
            sh.violation(Violation { prop: "C06".into(), signature: format!("C06/{}", rule), detail: d, replay: J::obj().with("index", J::us(i)) });
        }
        sh.evaluations = 1;
        return;
    }
    let miri = args.is_miri();
    for (i, c) in cfgs.iter().enumerate() {
        if i as u64 % args.nshards != args.shard {
            continue;
        }
        if miri && (c.size > 256 || i % 7 != 0) {
            continue;
        }
        let mut rng = Rng::derive(args.seed, 0xC06, i as u64, 0);
        let vs = check_cfg(*c, &mut rng, sh);
        sh.evaluations += 1;
        let mut h = Hash64::new();
        h.u64(i as u64);
        sh.nontrivial.insert(h.finish());
        if sh.want_sample() && i % 97 == (args.shard as usize * 13) % 97 {
            sh.sample(c.json());
        }
        for (rule, d) in vs {
            sh.violation(Violation { prop: "C06".into(), signature: format!("C06/{}", rule), detail: format!("{} [{:?}]", d, c), replay: J::obj().with("index", J::us(i)).with("build", J::s(args.build.clone())).with("config", c.json()) });
        }
    }
    if sh.samples.is_empty() {
        if let Some(c) = cfgs.get(args.shard as usize) {
            sh.sample(c.json());
        }
    }
    if !miri {
        sh.notes.insert("exhaustive".into(), J::Bool(true));
        sh.notes.insert("configurations_total".into(), J::us(cfgs.len()));
    }
}
