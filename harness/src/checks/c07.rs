//! C07 — a misbehaving device cannot corrupt driver state or cause invalid memory access.
//! Fault catalogue x target matrix.  Memory oracles are the sanitizer builds this binary is run in
//! (ASan gate, Miri subset, valgrind); logic oracles are the ledger (double unshare / dealloc),
//! slice-length checks and the differential scribbling run.  A clean Rust panic is an acceptable outcome.
use super::Args;
use crate::checks::c20::CmdDev;
use crate::devsim::{self, DViol, Personality, Policy, QSrv};
use crate::drivers::{self, Built, Drv};
use crate::hooks::{self, DmaAccess};
use crate::json::J;
use crate::mem::{self, HalMode, LedgerHal};
use crate::report::{Shard, Violation};
use crate::rng::{Hash64, Rng};
use crate::vqdev::VqDev;
use crate::xport_any::{self, TKind};
use crate::xport_model::{ModelState, ModelTransport};
use std::cell::RefCell;
use std::panic::{AssertUnwindSafe, catch_unwind};
use std::rc::Rc;
use virtio_drivers::Error;
use virtio_drivers::queue::{OwningQueue, VirtQueue};
use virtio_drivers::transport::DeviceType;

#[derive(Clone, Copy, Debug, PartialEq, Eq)]
pub enum Fault {
    IdOutOfRange,
    IdFree,
    IdOtherOutstanding,
    IdDuplicate,
    LenZero,
    LenPlusOne,
    LenHuge31,
    LenMax,
    IdxJump2,
    IdxJumpN,
    IdxJump32768,
    IdxJump65535,
    ToctouId,
    ToctouLen,
    IdHighBits,
    /// a completion whose length exceeds the buffer (rejected by the driver), then the same id again
    OversizeThenRepeat,
}
pub const FAULTS: [Fault; 16] = [
    Fault::IdOutOfRange,
    Fault::IdFree,
    Fault::IdOtherOutstanding,
    Fault::IdDuplicate,
    Fault::LenZero,
    Fault::LenPlusOne,
    Fault::LenHuge31,
    Fault::LenMax,
    Fault::IdxJump2,
    Fault::IdxJumpN,
    Fault::IdxJump32768,
    Fault::IdxJump65535,
    Fault::ToctouId,
    Fault::ToctouLen,
    Fault::IdHighBits,
    Fault::OversizeThenRepeat,
];

fn ledger_c07(v: &mut Vec<DViol>, desc: &str) {
    for lv in mem::with(|l| l.take_violations()) {
        // double release / release of something never handed out are the C07 ledger rules; a share
        // that is merely never returned (leak under a hostile device) is not a violation
        if matches!(lv.rule, "unshare_twice" | "unshare_unknown" | "unshare_mismatch" | "dma_dealloc_twice" | "dma_dealloc_unknown" | "dma_dealloc_mismatch") {
            v.push(DViol { prop: "C07", rule: lv.rule, detail: format!("{} {}", lv.detail, desc) });
        }
    }
}

pub struct CaseOut {
    pub viol: Vec<DViol>,
    pub consumed: bool,
    pub panics: u64,
    pub errors: u64,
    pub oks: u64,
    pub sample: Option<J>,
}

// ------------------------------------------------------------------------------------------
// (A) raw VirtQueue / OwningQueue under used-ring faults

fn raw_queue_case(fault: Fault, pos: usize, variant: u64) -> CaseOut {
    const N: usize = 4;
    let mut out = CaseOut { viol: vec![], consumed: false, panics: 0, errors: 0, oks: 0, sample: None };
    mem::reset(HalMode::Bounce);
    hooks::clear();
    let (indirect, event_idx) = (variant & 1 != 0, variant & 2 != 0);
    let st = ModelState::new(DeviceType::Block, 0);
    st.borrow_mut().driver_features = Some(if indirect { devsim::F_INDIRECT } else { 0 } | if event_idx { devsim::F_EVENT_IDX } else { 0 });
    let mut t = ModelTransport::new(&st);
    let mut q = VirtQueue::<LedgerHal, N>::new(&mut t, 0, indirect, event_idx, false).expect("queue");
    let mut dev = QSrv::new(&st.borrow(), 0, Policy::Eager).unwrap();
    let desc = format!("[raw VirtQueue<{}> indirect={} event_idx={} fault {:?} after {} clean cycles]", N, indirect, event_idx, fault, pos);
    // outstanding: token -> (in buffer, out buffer)
    let mut outst: Vec<(u16, Vec<u8>, Vec<u8>)> = vec![];
    let mut submit = |q: &mut VirtQueue<LedgerHal, N>, outst: &mut Vec<(u16, Vec<u8>, Vec<u8>)>, two: bool| {
        let a = vec![0x11u8; 8];
        let mut b = vec![0u8; 16];
        // SAFETY: buffers are moved into `outst` (heap storage does not move) and stay untouched until popped.
        let r = unsafe { if two { q.add(&[&a], &mut [&mut b]) } else { q.add(&[], &mut [&mut b]) } };
        if let Ok(tok) = r {
            outst.push((tok, a, b));
        }
        r
    };
    let pop = |q: &mut VirtQueue<LedgerHal, N>, outst: &mut Vec<(u16, Vec<u8>, Vec<u8>)>, i: usize, two: bool| -> Result<u32, Error> {
        let (tok, a, b) = &mut outst[i];
        // SAFETY: same buffers as added under this token.
        let r = unsafe { if two { q.pop_used(*tok, &[a], &mut [b]) } else { q.pop_used(*tok, &[], &mut [b]) } };
        if r.is_ok() {
            outst.remove(i);
        }
        r
    };
    let two = variant & 4 != 0;
    for _ in 0..pos {
        let _ = submit(&mut q, &mut outst, two);
        let _ = dev.fetch_all();
        if !dev.held.is_empty() {
            let _ = dev.complete_at(0, &[9; 4], None);
        }
        if !outst.is_empty() {
            let _ = pop(&mut q, &mut outst, 0, two);
        }
    }
    // three chains outstanding, device has fetched them
    for _ in 0..3 {
        let _ = submit(&mut q, &mut outst, two);
    }
    let _ = dev.fetch_all();
    let toks: Vec<u16> = outst.iter().map(|o| o.0).collect();
    let free_tok = (0..N as u16).find(|t| !toks.contains(t)).unwrap_or(N as u16 - 1);
    let first = toks.first().copied().unwrap_or(0);
    let wcap = 16u32;
    let (id, len, jump): (u32, u32, u16) = match fault {
        Fault::IdOutOfRange => (N as u32 + 3, wcap, 1),
        Fault::IdFree => (free_tok as u32, wcap, 1),
        Fault::IdOtherOutstanding => (*toks.last().unwrap_or(&0) as u32, wcap, 1),
        Fault::IdDuplicate => (first as u32, wcap, 1),
        Fault::LenZero => (first as u32, 0, 1),
        Fault::LenPlusOne => (first as u32, wcap + 1 + if two { 8 } else { 0 }, 1),
        Fault::LenHuge31 => (first as u32, 1 << 31, 1),
        Fault::LenMax => (first as u32, u32::MAX, 1),
        Fault::IdxJump2 => (first as u32, wcap, 2),
        Fault::IdxJumpN => (first as u32, wcap, N as u16),
        Fault::IdxJump32768 => (first as u32, wcap, 32768),
        Fault::IdxJump65535 => (first as u32, wcap, 65535),
        Fault::ToctouId | Fault::ToctouLen => (first as u32, wcap, 1),
        Fault::IdHighBits => (first as u32 | 0x7fff_0000, wcap, 1),
        Fault::OversizeThenRepeat => (first as u32, wcap + 100, 1),
    };
    if fault == Fault::IdDuplicate || fault == Fault::OversizeThenRepeat {
        let _ = dev.hostile_complete(id, len, 1);
    }
    let _ = dev.hostile_complete(id, len, jump);
    if matches!(fault, Fault::ToctouId | Fault::ToctouLen) {
        // rewrite the element between the driver's two loads of it
        let d2 = dev.dev.clone();
        let slot = dev.dev.used_idx.wrapping_sub(1) & (N as u16 - 1);
        let mut seen = 0;
        let other = *toks.last().unwrap_or(&0) as u32;
        hooks::set_dma(move |k, _| {
            if k == DmaAccess::LoadUsedElem {
                seen += 1;
                if seen % 2 == 1 {
                    // after the id load (this hook fires before each load; odd = before id, even = before len)
                } else if fault == Fault::ToctouLen {
                    let _ = d2.write_used_elem(slot, id, u32::MAX);
                } else {
                    let _ = d2.write_used_elem(slot, other, len);
                }
            }
        });
    }
    // the driver consumes: as drivers do, it trusts peek_used() only if that token is one of its own
    let mut steps = 0;
    for _ in 0..8 {
        if outst.is_empty() {
            break;
        }
        steps += 1;
        let r = catch_unwind(AssertUnwindSafe(|| {
            let pk = q.peek_used();
            let i = pk.and_then(|t| outst.iter().position(|o| o.0 == t)).unwrap_or(0);
            (pk, pop(&mut q, &mut outst, i, two))
        }));
        out.consumed = true;
        match r {
            Err(_) => {
                out.panics += 1;
                break;
            }
            Ok((_, Ok(l))) => {
                out.oks += 1;
                let _ = l;
            }
            Ok((_, Err(_))) => {
                out.errors += 1;
                if steps > 4 {
                    break;
                }
            }
        }
    }
    hooks::clear();
    // life goes on: a few more well-formed cycles must not trip anything either (or may fail cleanly)
    for _ in 0..3 {
        let r = catch_unwind(AssertUnwindSafe(|| {
            let _ = submit(&mut q, &mut outst, two);
            let _ = q.can_pop();
            let _ = q.available_desc();
        }));
        if r.is_err() {
            out.panics += 1;
            break;
        }
    }
    let r = catch_unwind(AssertUnwindSafe(move || drop(q)));
    if r.is_err() {
        out.panics += 1;
    }
    drop(t);
    ledger_c07(&mut out.viol, &desc);
    out
}

fn owning_case(fault: Fault, pos: usize, variant: u64) -> CaseOut {
    const S: usize = 4;
    const B: usize = 16;
    let mut out = CaseOut { viol: vec![], consumed: false, panics: 0, errors: 0, oks: 0, sample: None };
    mem::reset(HalMode::Bounce);
    hooks::clear();
    let (indirect, event_idx) = (variant & 1 != 0, variant & 2 != 0);
    let st = ModelState::new(DeviceType::Input, 0);
    st.borrow_mut().driver_features = Some(if indirect { devsim::F_INDIRECT } else { 0 } | if event_idx { devsim::F_EVENT_IDX } else { 0 });
    let mut t = ModelTransport::new(&st);
    let q = VirtQueue::<LedgerHal, S>::new(&mut t, 0, indirect, event_idx, false).expect("queue");
    let mut oq = OwningQueue::<LedgerHal, S, B>::new(q).expect("owning queue");
    let mut dev = QSrv::new(&st.borrow(), 0, Policy::Eager).unwrap();
    let desc = format!("[OwningQueue<{}, {}> indirect={} event_idx={} fault {:?} after {} clean cycles]", S, B, indirect, event_idx, fault, pos);
    for _ in 0..pos {
        let _ = dev.fetch_all();
        if !dev.held.is_empty() {
            let _ = dev.complete_at(0, &[7; 5], None);
        }
        let _ = oq.poll(&mut t, |b: &[u8]| Ok(Some(b.len())));
    }
    let _ = dev.fetch_all();
    let first = dev.held.front().map(|c| c.head).unwrap_or(0) as u32;
    let other = dev.held.back().map(|c| c.head).unwrap_or(0) as u32;
    let (id, len, jump): (u32, u32, u16) = match fault {
        Fault::IdOutOfRange => (S as u32 + 5, 4, 1),
        Fault::IdFree => (first, 4, 1), // nothing is ever free in a stocked queue; same as duplicate
        Fault::IdOtherOutstanding => (other, 4, 1),
        Fault::IdDuplicate => (first, 4, 1),
        Fault::LenZero => (first, 0, 1),
        Fault::LenPlusOne => (first, B as u32 + 1, 1),
        Fault::LenHuge31 => (first, 1 << 31, 1),
        Fault::LenMax => (first, u32::MAX, 1),
        Fault::IdxJump2 => (first, 4, 2),
        Fault::IdxJumpN => (first, 4, S as u16),
        Fault::IdxJump32768 => (first, 4, 32768),
        Fault::IdxJump65535 => (first, 4, 65535),
        Fault::ToctouId | Fault::ToctouLen => (first, 4, 1),
        Fault::IdHighBits => (first | 0x0001_0000, 4, 1),
        Fault::OversizeThenRepeat => (first, 4, 1),
    };
    if fault == Fault::IdDuplicate || fault == Fault::IdFree {
        let _ = dev.hostile_complete(id, len, 1);
    }
    if fault == Fault::OversizeThenRepeat {
        // the oversized completion is consumed (and rejected) first, then the device names the same buffer again
        let _ = dev.hostile_complete(first, B as u32 + 1, 1);
        let r = catch_unwind(AssertUnwindSafe(|| oq.poll(&mut t, |b: &[u8]| Ok(Some(b.len())))));
        match r {
            Err(_) => out.panics += 1,
            Ok(Err(_)) => out.errors += 1,
            Ok(Ok(_)) => out.oks += 1,
        }
    }
    let _ = dev.hostile_complete(id, len, jump);
    if matches!(fault, Fault::ToctouId | Fault::ToctouLen) {
        let d2 = dev.dev.clone();
        let slot = dev.dev.used_idx.wrapping_sub(1) & (S as u16 - 1);
        let mut seen = 0;
        hooks::set_dma(move |k, _| {
            if k == DmaAccess::LoadUsedElem {
                seen += 1;
                // peek_used loads the id once, pop_used loads id then len: flip after the peek
                if seen == 2 {
                    if fault == Fault::ToctouLen {
                        let _ = d2.write_used_elem(slot, id, 1 << 20);
                    } else {
                        let _ = d2.write_used_elem(slot, other, len);
                    }
                } else if seen == 3 && fault == Fault::ToctouLen {
                    let _ = d2.write_used_elem(slot, id, u32::MAX);
                }
            }
        });
    }
    for _ in 0..10 {
        let r = catch_unwind(AssertUnwindSafe(|| oq.poll(&mut t, |b: &[u8]| Ok(Some((b.len(), b.iter().map(|x| *x as u32).sum::<u32>()))))));
        out.consumed = true;
        match r {
            Err(_) => {
                out.panics += 1;
                break;
            }
            Ok(Ok(Some((l, _)))) => {
                out.oks += 1;
                if l > B {
                    out.viol.push(DViol { prop: "C07", rule: "slice_exceeds_backing_buffer", detail: format!("OwningQueue handed a {}-byte slice to the handler, buffers are {} bytes {}", l, B, desc) });
                }
            }
            Ok(Ok(None)) => break,
            Ok(Err(_)) => out.errors += 1,
        }
    }
    hooks::clear();
    let r = catch_unwind(AssertUnwindSafe(move || drop(oq)));
    if r.is_err() {
        out.panics += 1;
    }
    drop(t);
    ledger_c07(&mut out.viol, &desc);
    out
}


// ------------------------------------------------------------------------------------------
// (A') multi-fault random histories: the device draws a hostile action at every step

fn hostile_triple(rng: &mut Rng, n: u32, cap: u32) -> (u32, u32, u16) {
    let id = match rng.below(8) {
        0 => n + rng.below(4) as u32,
        1 => rng.next() as u32,
        2 => rng.below(n as u64) as u32 | 0x0001_0000 << rng.below(15),
        _ => rng.below(n as u64) as u32,
    };
    let len = match rng.below(8) {
        0 => 0,
        1 => cap + 1,
        2 => 1 << 31,
        3 => u32::MAX,
        4 => rng.next() as u32,
        _ => rng.below(cap as u64 + 1) as u32,
    };
    let jump = match rng.below(10) {
        0 => 0,
        1 => 2,
        2 => n as u16,
        3 => 32768,
        4 => 65535,
        5 => rng.next() as u16,
        _ => 1,
    };
    (id, len, jump)
}

fn fuzz_raw<const N: usize>(seed: u64) -> CaseOut {
    let mut out = CaseOut { viol: vec![], consumed: false, panics: 0, errors: 0, oks: 0, sample: None };
    let mut rng = Rng::derive(seed, 0xf077, N as u64, 1);
    mem::reset(HalMode::Bounce);
    mem::with(|l| l.allow_illegal_dev_writes = true);
    hooks::clear();
    let (indirect, event_idx) = (rng.bool(), rng.bool());
    let st = ModelState::new(DeviceType::Block, 0);
    st.borrow_mut().driver_features = Some(if indirect { devsim::F_INDIRECT } else { 0 } | if event_idx { devsim::F_EVENT_IDX } else { 0 });
    let mut t = ModelTransport::new(&st);
    let mut q = VirtQueue::<LedgerHal, N>::new(&mut t, 0, indirect, event_idx, false).expect("queue");
    let mut dev = QSrv::new(&st.borrow(), 0, Policy::Eager).unwrap();
    let reg = *st.borrow().queues.get(&0).unwrap();
    let desc = format!("[fuzz raw VirtQueue<{}> indirect={} event_idx={} seed {:#x}]", N, indirect, event_idx, seed);
    // outstanding: token -> (readable buffers, writable buffers)
    let mut outst: Vec<(u16, Vec<Vec<u8>>, Vec<Vec<u8>>)> = vec![];
    let steps = rng.range(20, 120);
    let mut dead = false;
    for _ in 0..steps {
        if dead {
            break;
        }
        match rng.below(10) {
            0..=2 => {
                let ni = rng.below(3) as usize;
                let no = rng.range(if ni == 0 { 1 } else { 0 }, 2) as usize;
                let ins: Vec<Vec<u8>> = (0..ni).map(|_| vec![0x11u8; rng.range(1, 24) as usize]).collect();
                let mut outs: Vec<Vec<u8>> = (0..no).map(|_| vec![0u8; rng.range(1, 24) as usize]).collect();
                let r = catch_unwind(AssertUnwindSafe(|| {
                    let i: Vec<&[u8]> = ins.iter().map(|v| &v[..]).collect();
                    let mut o: Vec<&mut [u8]> = outs.iter_mut().map(|v| &mut v[..]).collect();
                    // SAFETY: the vectors are moved into `outst` (heap storage does not move) and stay untouched until popped or the queue is dropped.
                    unsafe { q.add(&i, &mut o) }
                }));
                match r {
                    Ok(Ok(tok)) => {
                        out.oks += 1;
                        outst.push((tok, ins, outs));
                    }
                    Ok(Err(_)) => out.errors += 1,
                    Err(_) => {
                        out.panics += 1;
                        // the buffers may be referenced by a half-built chain: keep them alive
                        outst.push((u16::MAX, ins, outs));
                        dead = true;
                    }
                }
            }
            3 => {
                let _ = dev.fetch_some(2 * N.max(4));
                if !dev.held.is_empty() && rng.chance(2, 3) {
                    let i = rng.below(dev.held.len() as u64) as usize;
                    let _ = dev.complete_at(i, &[9; 6], None);
                }
            }
            4 | 5 => {
                let (id, len, jump) = hostile_triple(&mut rng, N as u32, 48);
                let _ = dev.hostile_complete(id, len, jump);
                out.consumed = true;
            }
            6 => {
                // scribble over driver-owned queue memory (descriptor table, available ring)
                let mut junk = vec![0u8; rng.range(1, 32) as usize];
                rng.fill(&mut junk);
                let (base, span) = if rng.bool() { (reg.desc, 16 * N as u64) } else { (reg.driver, 6 + 2 * N as u64) };
                let off = rng.below(span);
                let n = junk.len().min((span - off) as usize);
                let _ = mem::with(|l| l.dev_write(base + off, &junk[..n]));
                out.consumed = true;
            }
            _ => {
                // the driver polls: as drivers do, it pops the token peek_used() names if that is one of its own,
                // otherwise (or sometimes anyway) an arbitrary outstanding one
                if outst.is_empty() {
                    continue;
                }
                let r = catch_unwind(AssertUnwindSafe(|| {
                    let pk = q.peek_used();
                    let i = match pk.and_then(|t| outst.iter().position(|o| o.0 == t)) {
                        Some(i) if !rng.chance(1, 6) => i,
                        _ => rng.below(outst.len() as u64) as usize,
                    };
                    let (tok, ins, outs) = &mut outst[i];
                    let iv: Vec<&[u8]> = ins.iter().map(|v| &v[..]).collect();
                    let mut ov: Vec<&mut [u8]> = outs.iter_mut().map(|v| &mut v[..]).collect();
                    // SAFETY: same buffers as added under this token.
                    (i, unsafe { q.pop_used(*tok, &iv, &mut ov) })
                }));
                match r {
                    Ok((i, Ok(_))) => {
                        out.oks += 1;
                        outst.remove(i);
                    }
                    Ok((_, Err(_))) => out.errors += 1,
                    Err(_) => {
                        out.panics += 1;
                        dead = true;
                    }
                }
                let _ = catch_unwind(AssertUnwindSafe(|| (q.can_pop(), q.available_desc(), q.should_notify())));
            }
        }
    }
    let r = catch_unwind(AssertUnwindSafe(move || drop(q)));
    if r.is_err() {
        out.panics += 1;
    }
    drop(t);
    drop(outst);
    ledger_c07(&mut out.viol, &desc);
    out
}

fn fuzz_owning<const S: usize, const B: usize>(seed: u64) -> CaseOut {
    let mut out = CaseOut { viol: vec![], consumed: false, panics: 0, errors: 0, oks: 0, sample: None };
    let mut rng = Rng::derive(seed, 0xf078, S as u64, B as u64);
    mem::reset(HalMode::Bounce);
    mem::with(|l| l.allow_illegal_dev_writes = true);
    hooks::clear();
    let (indirect, event_idx) = (rng.bool(), rng.bool());
    let st = ModelState::new(DeviceType::Input, 0);
    st.borrow_mut().driver_features = Some(if indirect { devsim::F_INDIRECT } else { 0 } | if event_idx { devsim::F_EVENT_IDX } else { 0 });
    let mut t = ModelTransport::new(&st);
    let q = VirtQueue::<LedgerHal, S>::new(&mut t, 0, indirect, event_idx, false).expect("queue");
    let mut oq = OwningQueue::<LedgerHal, S, B>::new(q).expect("owning queue");
    let mut dev = QSrv::new(&st.borrow(), 0, Policy::Eager).unwrap();
    let reg = *st.borrow().queues.get(&0).unwrap();
    let desc = format!("[fuzz OwningQueue<{}, {}> indirect={} event_idx={} seed {:#x}]", S, B, indirect, event_idx, seed);
    let steps = rng.range(20, 120);
    for _ in 0..steps {
        match rng.below(8) {
            0 | 1 => {
                let _ = dev.fetch_some(2 * S);
                if !dev.held.is_empty() {
                    let i = rng.below(dev.held.len() as u64) as usize;
                    let mut data = vec![0u8; rng.below(B as u64 + 1) as usize];
                    rng.fill(&mut data);
                    let _ = dev.complete_at(i, &data, None);
                }
            }
            2 | 3 => {
                let (id, len, jump) = hostile_triple(&mut rng, S as u32, B as u32);
                let _ = dev.hostile_complete(id, len, jump);
                out.consumed = true;
            }
            4 => {
                let mut junk = vec![0u8; rng.range(1, 32) as usize];
                rng.fill(&mut junk);
                let (base, span) = if rng.bool() { (reg.desc, 16 * S as u64) } else { (reg.driver, 6 + 2 * S as u64) };
                let off = rng.below(span);
                let n = junk.len().min((span - off) as usize);
                let _ = mem::with(|l| l.dev_write(base + off, &junk[..n]));
                out.consumed = true;
            }
            _ => {
                let reject = rng.chance(1, 5);
                let r = catch_unwind(AssertUnwindSafe(|| {
                    oq.poll(&mut t, |b: &[u8]| if reject { Err(Error::IoError) } else { Ok(Some((b.len(), b.iter().map(|x| *x as u32).sum::<u32>()))) })
                }));
                match r {
                    Err(_) => {
                        out.panics += 1;
                        break;
                    }
                    Ok(Ok(Some((l, _)))) => {
                        out.oks += 1;
                        if l > B {
                            out.viol.push(DViol { prop: "C07", rule: "slice_exceeds_backing_buffer", detail: format!("OwningQueue handed a {}-byte slice to the handler, buffers are {} bytes {}", l, B, desc) });
                        }
                    }
                    Ok(Ok(None)) => {}
                    Ok(Err(_)) => out.errors += 1,
                }
            }
        }
    }
    let r = catch_unwind(AssertUnwindSafe(move || drop(oq)));
    if r.is_err() {
        out.panics += 1;
    }
    drop(t);
    ledger_c07(&mut out.viol, &desc);
    out
}

fn fuzz_case(c: u64, seed: u64) -> CaseOut {
    let s = seed.wrapping_mul(0x9e3779b97f4a7c15) ^ c;
    match c % 7 {
        0 => fuzz_raw::<2>(s),
        1 => fuzz_raw::<4>(s),
        2 => fuzz_raw::<16>(s),
        3 => fuzz_raw::<1>(s),
        4 => fuzz_owning::<2, 8>(s),
        5 => fuzz_owning::<4, 16>(s),
        _ => fuzz_owning::<8, 64>(s),
    }
}

// ------------------------------------------------------------------------------------------
// (B) drivers under hostile responses / completions

#[derive(Clone, Copy, Debug, PartialEq, Eq)]
pub enum DFault {
    /// response bytes all ones, used length = writable capacity
    RespAllOnes,
    RespRandom,
    /// plausible response but used length is wrong
    UsedLenZero,
    UsedLenPlusOne,
    UsedLenHuge,
    /// completion names another id
    WrongId,
    OutOfRangeId,
    IdxJump,
    /// driver-stocked queue: event with an oversized / zero length, wrong id, index jump
    StockedLenHuge,
    StockedLenZero,
    StockedWrongId,
    StockedIdxJump,
    /// configuration space values at their extremes
    ConfigExtreme,
    /// garbage in the stocked buffer (vsock header fuzz, input/sound event fuzz)
    StockedGarbage,
    /// multi-fault history: a fault of any of the kinds above is drawn at every request, spin round and event
    Random,
}
pub const DFAULTS: [DFault; 14] = [
    DFault::RespAllOnes,
    DFault::RespRandom,
    DFault::UsedLenZero,
    DFault::UsedLenPlusOne,
    DFault::UsedLenHuge,
    DFault::WrongId,
    DFault::OutOfRangeId,
    DFault::IdxJump,
    DFault::StockedLenHuge,
    DFault::StockedLenZero,
    DFault::StockedWrongId,
    DFault::StockedIdxJump,
    DFault::ConfigExtreme,
    DFault::StockedGarbage,
];

fn driver_case(d: Drv, f: DFault, kind: TKind, variant: u64, seed: u64) -> CaseOut {
    let mut out = CaseOut { viol: vec![], consumed: false, panics: 0, errors: 0, oks: 0, sample: None };
    mem::reset(HalMode::Bounce);
    hooks::clear();
    let mut rng = Rng::new(seed ^ variant.wrapping_mul(0x9e3779b9));
    let mut offered = devsim::F_VERSION_1 | d.implemented();
    if variant & 1 == 0 {
        offered &= !devsim::F_INDIRECT;
    }
    if variant & 2 == 0 {
        offered &= !devsim::F_EVENT_IDX;
    }
    offered &= !devsim::F_ACCESS_PLATFORM;
    if kind.legacy() {
        offered &= !devsim::F_VERSION_1;
    }
    let mut cfg = d.config();
    if f == DFault::ConfigExtreme {
        // every field at its maximum, except allocation-size fields that are exercised in a
        // memory-limited subprocess of their own (sound streams: see oom_case)
        for b in cfg.iter_mut() {
            *b = 0xff;
        }
        if d == Drv::Sound {
            cfg[4..8].copy_from_slice(&64u32.to_le_bytes());
        }
        if d == Drv::P9 {
            // tag_len = 65535 with a short window
        }
    }
    let desc = format!("[{} on {} fault {:?} variant {}]", d.name(), kind.name(), f, variant);
    let (rig, t) = xport_any::build(kind, d.device_type(), offered, cfg);
    if f == DFault::ConfigExtreme {
        if let Some(pv) = &rig.pci {
            // a device that reports a queue_notify_off far beyond its notify capability
            pv.borrow_mut().notify_off_override = Some(0xfff0);
        }
    }
    let dev = Rc::new(RefCell::new(CmdDev::new(&rig, d.queues(), Policy::Eager, seed)));
    drivers::install_auto_responder(d, &mut dev.borrow_mut());
    // wrap the responder with the response-level fault; completion-level faults are applied in the spin hook
    let resp_fault = f;
    let inner = dev.borrow_mut().handler.take();
    let mut inner = inner.unwrap();
    let mut r2 = Rng::new(seed ^ 0xabcdef);
    let armed = Rc::new(RefCell::new(false));
    let armed2 = armed.clone();
    dev.borrow_mut().handler = Some(Box::new(move |r| {
        let (mut resp, mut used) = inner(r);
        if !*armed2.borrow() {
            return (resp, used);
        }
        let eff = if resp_fault == DFault::Random {
            *r2.pick(&[DFault::Random, DFault::Random, DFault::Random, DFault::RespAllOnes, DFault::RespRandom, DFault::UsedLenZero, DFault::UsedLenPlusOne, DFault::UsedLenHuge])
        } else {
            resp_fault
        };
        match eff {
            DFault::RespAllOnes => {
                resp = vec![0xff; r.wcap];
                used = Some(r.wcap as u32);
            }
            DFault::RespRandom => {
                resp = vec![0; r.wcap];
                r2.fill(&mut resp);
                used = Some(r2.next() as u32 % (r.wcap as u32 + 2));
            }
            DFault::UsedLenZero => used = Some(0),
            DFault::UsedLenPlusOne => used = Some(r.wcap as u32 + 1),
            DFault::UsedLenHuge => used = Some(if r2.bool() { u32::MAX } else { 1 << 31 }),
            _ => {}
        }
        (resp, used)
    }));
    // completion-level faults on request queues: intercept in the spin hook before the responder runs
    {
        let dev2 = dev.clone();
        let armed3 = armed.clone();
        let mut fired = false;
        let mut spins = 0u64;
        let mut fires = 0u32;
        let mut r3 = Rng::new(seed ^ 0x5151);
        let qs: Vec<u16> = d.queues().iter().copied().filter(|q| !d.stocked_queues().contains(q)).collect();
        hooks::set_spin(move || {
            spins += 1;
            let mut dv = dev2.borrow_mut();
            let f = if f == DFault::Random && fires < 6 && r3.chance(1, 5) {
                fired = false;
                *r3.pick(&[DFault::WrongId, DFault::OutOfRangeId, DFault::IdxJump])
            } else {
                f
            };
            if *armed3.borrow() && !fired && matches!(f, DFault::WrongId | DFault::OutOfRangeId | DFault::IdxJump) {
                // look at the request queues ourselves
                dv.manual.extend(qs.iter().copied());
                dv.observe();
                for q in qs.iter() {
                    if let Some(s) = dv.qs.get_mut(q) {
                        if let Some(ch) = s.held.pop_front() {
                            let size = s.dev.size as u32;
                            let (id, jump) = match f {
                                DFault::WrongId => ((ch.head as u32 + 1) % size, 1),
                                DFault::OutOfRangeId => (size + 7, 1),
                                _ => (ch.head as u32, 3),
                            };
                            let _ = s.hostile_complete(id, 8, jump);
                            fired = true;
                            fires += 1;
                        }
                    }
                }
                dv.manual.retain(|q| !qs.contains(q));
            } else {
                dv.step();
            }
            drop(dv);
            // a wedged request (device answered with a wrong id) never completes: bail out cleanly
            if spins > 2000 {
                panic!("monitor: hostile device wedged the blocking request (acceptable, ending the call)");
            }
        });
    }
    let built = catch_unwind(AssertUnwindSafe(|| drivers::construct(d, t)));
    let mut built: Option<Built> = match built {
        Err(_) => {
            out.panics += 1;
            None
        }
        Ok(Err(_)) => {
            out.errors += 1;
            None
        }
        Ok(Ok(b)) => Some(b),
    };
    if f == DFault::ConfigExtreme {
        out.consumed = true;
    }
    if let Some(b) = built.as_mut() {
        dev.borrow_mut().observe();
        *armed.borrow_mut() = true;
        // stocked-queue faults: deliver the hostile item first
        let stocked = d.stocked_queues().first().copied();
        let stocked_faults: Vec<DFault> = if f == DFault::Random {
            (0..rng.below(4)).map(|_| *rng.pick(&[DFault::StockedLenHuge, DFault::StockedLenZero, DFault::StockedWrongId, DFault::StockedIdxJump, DFault::StockedGarbage, DFault::StockedLenHuge])).collect()
        } else {
            vec![f]
        };
        for f in stocked_faults {
        if let (Some(sq), true) = (stocked, matches!(f, DFault::StockedLenHuge | DFault::StockedLenZero | DFault::StockedWrongId | DFault::StockedIdxJump | DFault::StockedGarbage)) {
            let mut dv = dev.borrow_mut();
            dv.observe();
            if let Some(s) = dv.qs.get_mut(&sq) {
                if let Some(ch) = s.held.front().cloned() {
                    let cap = ch.writable_len();
                    let size = s.dev.size as u32;
                    let mut garbage = vec![0u8; cap.min(256)];
                    rng.fill(&mut garbage);
                    let _ = s.dev.write_payload(&ch, &garbage);
                    let (id, len, jump) = match f {
                        DFault::StockedLenHuge => (ch.head as u32, *rng.pick(&[cap as u32 + 1, 1 << 31, u32::MAX]), 1),
                        DFault::StockedLenZero => (ch.head as u32, 0, 1),
                        DFault::StockedWrongId => (*rng.pick(&[size + 1, 0xffff, (ch.head as u32 + 1) % size.max(1)]), 8, 1),
                        DFault::StockedIdxJump => (ch.head as u32, 8, *rng.pick(&[2u16, 32768, 65535])),
                        _ => (ch.head as u32, garbage.len() as u32, 1),
                    };
                    s.held.pop_front();
                    let _ = s.hostile_complete(id, len, jump);
                    out.consumed = true;
                }
            }
        }
        }
        let mut ops = vec![];
        for round in 0..(if f == DFault::Random { 4 } else { 2 }) {
            let r = catch_unwind(AssertUnwindSafe(|| {
                let a = drivers::use_briefly(b, &mut ops);
                let c = drivers::exercise_stocked(b, &dev, &mut ops, offered);
                (a, c)
            }));
            match r {
                Err(_) => {
                    out.panics += 1;
                    break;
                }
                Ok((a, c)) => {
                    for x in [a.is_ok(), c.is_ok()] {
                        if x {
                            out.oks += 1
                        } else {
                            out.errors += 1
                        }
                    }
                }
            }
            if !dev.borrow().log.is_empty() {
                out.consumed = true;
            }
            // specific slice-length oracles after the hostile item was consumed
            if round == 0 {
                let r = catch_unwind(AssertUnwindSafe(|| match b {
                    Built::Console(x) => {
                        use embedded_io::BufRead;
                        x.fill_buf().map(|s| s.len()).unwrap_or(0)
                    }
                    _ => 0,
                }));
                match r {
                    Ok(n) if n > 4096 => out.viol.push(DViol { prop: "C07", rule: "slice_exceeds_backing_buffer", detail: format!("console fill_buf returned {} bytes {}", n, desc) }),
                    Ok(_) => {}
                    Err(_) => out.panics += 1,
                }
            }
        }
    }
    hooks::clear();
    let r = catch_unwind(AssertUnwindSafe(move || drop(built)));
    if r.is_err() {
        out.panics += 1;
    }
    ledger_c07(&mut out.viol, &desc);
    // an MMIO access outside every window the device exposes is an invalid memory access
    for (r, dd) in rig.take_register_violations() {
        if r == "access_outside_windows" || r == "config_access_outside_window" {
            out.viol.push(DViol { prop: "C07", rule: "mmio_access_outside_device_windows", detail: format!("{} {}", dd, desc) });
        }
    }
    crate::mmio_bus::reset();
    out
}

/// Extreme allocation-size configuration values: run alone in a memory-limited subprocess (an
/// allocation-failure abort cannot be caught in-process).
pub fn oom_case(which: u64) -> CaseOut {
    let mut out = CaseOut { viol: vec![], consumed: true, panics: 0, errors: 0, oks: 0, sample: None };
    mem::reset(HalMode::Bounce);
    hooks::clear();
    let d = Drv::Sound;
    let mut cfg = d.config();
    let _ = which;
    cfg[4..8].copy_from_slice(&u32::MAX.to_le_bytes()); // streams
    let (rig, t) = xport_any::build(TKind::Model, d.device_type(), devsim::F_VERSION_1, cfg);
    let dev = Rc::new(RefCell::new(CmdDev::new(&rig, d.queues(), Policy::Eager, 1)));
    drivers::install_auto_responder(d, &mut dev.borrow_mut());
    devsim::install_spin(&dev);
    println!("OOM-CASE sound streams=0xffffffff: constructing");
    let r = catch_unwind(AssertUnwindSafe(|| drivers::construct(d, t)));
    match r {
        Err(_) => out.panics += 1,
        Ok(Err(_)) => out.errors += 1,
        Ok(Ok(b)) => {
            out.oks += 1;
            drop(b);
        }
    }
    hooks::clear();
    out
}

// ------------------------------------------------------------------------------------------
// (C) differential run: scribbling over driver-owned queue areas must not change anything the caller sees

struct DiffDev {
    dev: VqDev,
    scribble: bool,
    rng: Rng,
    n: usize,
    scribbles: u64,
}
impl DiffDev {
    fn on_store(&mut self) {
        if !self.scribble {
            return;
        }
        self.scribbles += 1;
        // overwrite the whole descriptor table and available ring (incl. flags, idx, used_event)
        let mut junk = vec![0u8; 16 * self.n];
        self.rng.fill(&mut junk);
        let _ = mem::with(|l| l.dev_write(self.dev.desc, &junk));
        let mut junk = vec![0u8; 6 + 2 * self.n];
        self.rng.fill(&mut junk);
        let _ = mem::with(|l| l.dev_write(self.dev.avail, &junk));
    }
}

/// One history; returns the API-level result log and the ledger's share/unshare event log.
fn diff_history(seed: u64, n: usize, indirect: bool, event_idx: bool, mode: HalMode, scribble: bool, scribble_tables: bool) -> (Vec<String>, Vec<String>, u64, u64) {
    mem::reset(mode);
    hooks::clear();
    mem::with(|l| l.allow_illegal_dev_writes = true);
    let st = ModelState::new(DeviceType::Block, 0);
    let mut t = ModelTransport::new(&st);
    let mut q = crate::qcore::make_queue(n, &mut t, 0, indirect, event_idx, false).expect("queue");
    let reg = *st.borrow().queues.get(&0).unwrap();
    let dd = Rc::new(RefCell::new(DiffDev { dev: VqDev::new(0, reg, indirect, event_idx), scribble, rng: Rng::new(seed ^ 0x5c81b), n, scribbles: 0 }));
    let d2 = dd.clone();
    hooks::set_dma(move |k, _| {
        if hooks::is_store(k) {
            d2.borrow_mut().on_store();
        }
    });
    let mut rng = Rng::new(seed);
    let mut api: Vec<String> = vec![];
    let mut led: Vec<String> = vec![];
    // outstanding submissions in submission order: (token, ins, outs, table share paddr)
    let mut outst: Vec<(u16, Vec<Vec<u8>>, Vec<Vec<u8>>, Vec<crate::mem::ShareRec>)> = vec![];
    let mut used_idx: u16 = 0;
    let mut panicked = 0u64;
    for step in 0..120 {
        let r = rng.below(100);
        if r < 45 && outst.len() < n {
            let n_in = rng.below(3) as usize;
            let n_out = rng.below(3) as usize + (n_in == 0) as usize;
            if !indirect && n_in + n_out > n - outst.iter().map(|o| o.1.len() + o.2.len()).sum::<usize>() {
                continue;
            }
            let ins: Vec<Vec<u8>> = (0..n_in).map(|i| vec![(step + i) as u8; rng.range(1, 24) as usize]).collect();
            let mut outs: Vec<Vec<u8>> = (0..n_out).map(|_| vec![0xC3u8; rng.range(1, 24) as usize]).collect();
            mem::with(|l| {
                l.take_share_log();
            });
            let res = {
                let ir: Vec<&[u8]> = ins.iter().map(|v| v.as_slice()).collect();
                let mut or: Vec<&mut [u8]> = outs.iter_mut().map(|v| v.as_mut_slice()).collect();
                // SAFETY: buffers are kept in `outst` untouched until popped.
                catch_unwind(AssertUnwindSafe(|| unsafe { q.add(&ir, &mut or) }))
            };
            let shares = mem::with(|l| l.take_share_log());
            match res {
                Err(_) => {
                    panicked += 1;
                    api.push(format!("{} add -> panic", step));
                    break;
                }
                Ok(r) => {
                    api.push(format!("{} add({},{}) -> {:?}", step, n_in, n_out, r));
                    // position-independent ledger record: lengths and directions only (addresses differ between runs)
                    led.push(format!("share {:?}", shares.iter().map(|s| (s.len, s.dir)).collect::<Vec<_>>()));
                    if let Ok(tok) = r {
                        outst.push((tok, ins, outs, shares));
                    }
                }
            }
            // with an identity-mapping platform the device can also reach the indirect tables
            if scribble && scribble_tables && mode == HalMode::Identity {
                if let Some(o) = outst.last() {
                    if let Some(tab) = o.3.iter().find(|s| s.len % 16 == 0 && s.len == 16 * (o.1.len() + o.2.len()) && o.1.len() + o.2.len() > 1 && s.dir == crate::mem::Dir::ToDev) {
                        let mut junk = vec![0u8; tab.len];
                        dd.borrow_mut().rng.fill(&mut junk);
                        let _ = mem::with(|l| l.dev_write(tab.paddr, &junk));
                    }
                }
            }
        } else if r < 80 && !outst.is_empty() {
            // the device completes the oldest outstanding chain using only what the harness told it
            // (token from the API, buffer addresses from the platform layer) - never driver-owned memory
            let o = &outst[0];
            let mut wl = 0u32;
            for (b, s) in o.2.iter().zip(o.3.iter().filter(|s| s.dir == crate::mem::Dir::FromDev)) {
                let pat: Vec<u8> = (0..b.len()).map(|i| (o.0 as usize * 31 + i) as u8).collect();
                let _ = mem::with(|l| l.dev_write(s.paddr, &pat));
                wl += b.len() as u32;
            }
            let d = dd.borrow();
            let slot = used_idx & (n as u16 - 1);
            let _ = d.dev.write_used_elem(slot, o.0 as u32, wl);
            used_idx = used_idx.wrapping_add(1);
            let _ = d.dev.store_used_idx(used_idx);
            drop(d);
            let (tok, ins, mut outs, _) = outst.remove(0);
            mem::with(|l| {
                l.take_unshare_log();
            });
            let res = {
                let ir: Vec<&[u8]> = ins.iter().map(|v| v.as_slice()).collect();
                let outs_r = &mut outs;
                // SAFETY: same buffers as added under this token.
                catch_unwind(AssertUnwindSafe(|| {
                    let mut or: Vec<&mut [u8]> = outs_r.iter_mut().map(|v| v.as_mut_slice()).collect();
                    unsafe { q.pop_used(tok, &ir, &mut or) }
                }))
            };
            let un = mem::with(|l| l.take_unshare_log());
            match res {
                Err(_) => {
                    panicked += 1;
                    api.push(format!("{} pop -> panic", step));
                    break;
                }
                Ok(r) => {
                    let mut h = Hash64::new();
                    for b in &outs {
                        h.bytes(b);
                    }
                    api.push(format!("{} pop({}) -> {:?} data {:016x}", step, tok, r, h.finish()));
                    led.push(format!("unshare {:?}", un.iter().map(|s| (s.len, s.dir)).collect::<Vec<_>>()));
                }
            }
        } else {
            let r = catch_unwind(AssertUnwindSafe(|| (q.can_pop(), q.peek_used(), q.available_desc(), q.should_notify())));
            match r {
                // should_notify() reads device-owned memory (identical in both runs) and the driver's private index:
                // it is a caller-visible result like the others
                Ok((a, b, c, d)) => api.push(format!("{} query -> {} {:?} {} notify {}", step, a, b, c, d)),
                Err(_) => {
                    panicked += 1;
                    break;
                }
            }
        }
    }
    hooks::clear();
    let _ = catch_unwind(AssertUnwindSafe(move || drop(q)));
    drop(t);
    // ledger rule violations (device-chosen addresses reaching unshare etc.) are part of the ledger log
    for v in mem::with(|l| l.take_violations()) {
        led.push(format!("LEDGER-VIOLATION {} {}", v.rule, v.detail));
    }
    let s = dd.borrow().scribbles;
    (api, led, s, panicked)
}

fn diff_case(case: u64, seed: u64) -> CaseOut {
    let mut out = CaseOut { viol: vec![], consumed: true, panics: 0, errors: 0, oks: 0, sample: None };
    let mut rng = Rng::derive(seed, 0xC07D, case, 0);
    let n = *rng.pick(&[2usize, 4, 8]);
    let indirect = case & 1 != 0;
    let event_idx = case & 2 != 0;
    let mode = if case & 4 != 0 { HalMode::Identity } else { HalMode::Bounce };
    let tables = case & 8 != 0;
    let s = rng.next();
    let (a1, l1, _, p1) = diff_history(s, n, indirect, event_idx, mode, false, false);
    let (a2, l2, scr, p2) = diff_history(s, n, indirect, event_idx, mode, true, tables);
    out.oks = scr;
    out.panics = p1 + p2;
    let desc = format!("[differential run N={} indirect={} event_idx={} platform {:?} indirect tables scribbled: {} case {}]", n, indirect, event_idx, mode, tables && mode == HalMode::Identity, case);
    if a1 != a2 {
        let i = a1.iter().zip(a2.iter()).position(|(x, y)| x != y).unwrap_or(a1.len().min(a2.len()));
        out.viol.push(DViol { prop: "C07", rule: "caller_results_depend_on_driver_owned_queue_memory", detail: format!("API results differ once the device scribbles over the descriptor table / available ring: step {:?} vs {:?} {}", a1.get(i), a2.get(i), desc) });
    } else if l1 != l2 {
        let i = l1.iter().zip(l2.iter()).position(|(x, y)| x != y).unwrap_or(l1.len().min(l2.len()));
        let tabs = tables && mode == HalMode::Identity;
        out.viol.push(DViol {
            prop: "C07",
            rule: if tabs { "platform_calls_depend_on_device_writable_indirect_table" } else { "platform_calls_depend_on_driver_owned_queue_memory" },
            detail: format!("share/unshare calls differ between the clean and the scribbled run: {:?} vs {:?} {}", l1.get(i), l2.get(i), desc),
        });
    }
    out
}

// ------------------------------------------------------------------------------------------

/// Enumerated work items.
#[derive(Clone, Copy, Debug)]
enum Item {
    Raw(Fault, usize, u64),
    Owning(Fault, usize, u64),
    Driver(usize, DFault, usize, u64),
    Diff(u64),
    Fuzz(u64),
    DriverFuzz(usize, usize, u64),
}

fn work(args: &Args) -> Vec<Item> {
    let mut w = vec![];
    let miri = args.is_miri();
    let positions: &[usize] = if miri { &[0, 2] } else { &[0, 1, 2, 5] };
    let variants: u64 = if miri { 2 } else { 8 };
    for f in FAULTS {
        for p in positions {
            for v in 0..variants {
                w.push(Item::Raw(f, *p, v));
            }
            for v in 0..variants.min(4) {
                w.push(Item::Owning(f, *p, v));
            }
        }
    }
    if !miri {
        let kinds = [TKind::Model, TKind::MmioModern, TKind::Pci];
        for (di, _) in drivers::ALL.iter().enumerate() {
            for f in DFAULTS {
                for (ki, _) in kinds.iter().enumerate() {
                    let nv = if args.thorough() { 4 } else { 2 };
                    for v in 0..nv {
                        if ki != 0 && v != 0 && !args.thorough() {
                            continue;
                        }
                        w.push(Item::Driver(di, f, ki, if nv == 2 { v * 3 } else { v }));
                    }
                }
            }
        }
    }
    let ndiff = if miri { 8 } else { args.scaled(if args.thorough() { 4000 } else { 400 }) };
    for c in 0..ndiff {
        w.push(Item::Diff(c));
    }
    let nfuzz = if miri { 28 } else { args.scaled(if args.thorough() { 40_000 } else { 4_000 }) };
    for c in 0..nfuzz {
        w.push(Item::Fuzz(c));
    }
    if !miri {
        let ndf = args.scaled(if args.thorough() { 200 } else { 20 });
        for c in 0..ndf {
            for (di, _) in drivers::ALL.iter().enumerate() {
                w.push(Item::DriverFuzz(di, (c % 3) as usize, c));
            }
        }
    }
    w
}

fn run_item(it: Item, seed: u64) -> (CaseOut, String) {
    match it {
        Item::Raw(f, p, v) => (raw_queue_case(f, p, v), format!("raw:{:?}:{}:{}", f, p, v)),
        Item::Owning(f, p, v) => (owning_case(f, p, v), format!("owning:{:?}:{}:{}", f, p, v)),
        Item::Driver(di, f, ki, v) => {
            let kinds = [TKind::Model, TKind::MmioModern, TKind::Pci];
            (driver_case(drivers::ALL[di], f, kinds[ki], v, seed), format!("driver:{}:{:?}:{}:{}", drivers::ALL[di].name(), f, kinds[ki].name(), v))
        }
        Item::Diff(c) => (diff_case(c, seed), format!("diff:{}", c)),
        Item::DriverFuzz(di, ki, c) => {
            let kinds = [TKind::Model, TKind::MmioModern, TKind::Pci];
            (driver_case(drivers::ALL[di], DFault::Random, kinds[ki], c & 3, seed ^ c.wrapping_mul(0x9e3779b97f4a7c15)), format!("driverfuzz:{}:{}:{}", drivers::ALL[di].name(), kinds[ki].name(), c))
        }
        Item::Fuzz(c) => (fuzz_case(c, seed), format!("fuzz:{}:{}", ["raw2", "raw4", "raw16", "raw1", "owning2", "owning4", "owning8"][(c % 7) as usize], c)),
    }
}

pub fn run(args: &Args, sh: &mut Shard) {
    if args.prop == "C07OOM" {
        let o = oom_case(0);
        sh.evaluations = 1;
        sh.inc("oom_cases_survived", 1);
        sh.inc("panics", o.panics);
        sh.inc("errors", o.errors);
        return;
    }
    let w = work(args);
    if let Some(r) = &args.replay {
        let i = r.get("item").and_then(|x| x.as_u64()).unwrap_or(0) as usize;
        let (o, name) = run_item(w[i.min(w.len() - 1)], args.seed);
        println!("REPLAY item {} {}: {:#?} (panics {}, errors {}, oks {})", i, name, o.viol, o.panics, o.errors, o.oks);
        for v in o.viol {
            sh.violation(Violation { prop: v.prop.into(), signature: format!("{}/{}", v.prop, v.rule), detail: v.detail, replay: r.clone() });
        }
        sh.evaluations = 1;
        return;
    }
    for (i, it) in w.iter().enumerate() {
        if i as u64 % args.nshards != args.shard {
            continue;
        }
        // progress marker: if a sanitizer aborts the process, the last line names the case
        println!("CASE {} {:?}", i, it);
        let (o, name) = run_item(*it, args.seed);
        sh.evaluations += 1;
        if o.consumed {
            let mut h = Hash64::new();
            h.bytes(name.as_bytes());
            sh.nontrivial.insert(h.finish());
        } else {
            sh.inc("fault_not_consumed", 1);
        }
        sh.inc("clean_panics_observed", o.panics);
        sh.inc("errors_returned", o.errors);
        sh.inc("ok_results", o.oks);
        sh.inc(
            match it {
                Item::Raw(..) => "cases_raw_virtqueue",
                Item::Owning(..) => "cases_owning_queue",
                Item::Driver(..) => "cases_driver_level",
                Item::Diff(..) => "cases_differential_scribble",
                Item::Fuzz(..) => "cases_multi_fault_random_history",
                Item::DriverFuzz(..) => "cases_multi_fault_driver_history",
            },
            1,
        );
        if sh.want_sample() && matches!(it, Item::Driver(..)) && i % 41 == 7 {
            sh.sample(J::obj().with("item", J::us(i)).with("case", J::s(name.clone())).with("clean_panics", J::u(o.panics)).with("errors", J::u(o.errors)).with("ok_results", J::u(o.oks)));
        }
        for v in o.viol {
            // discriminate by target so that a known finding on one target does not hide another
            let disc = name.split(':').take(2).collect::<Vec<_>>().join(":");
            let sig = if v.rule.starts_with("platform_calls_depend_on_device_writable") { format!("{}/{}", v.prop, v.rule) } else { format!("{}/{}/{}", v.prop, v.rule, disc) };
            sh.violation(Violation { prop: v.prop.into(), signature: sig, detail: v.detail, replay: J::obj().with("item", J::us(i)).with("build", J::s(args.build.clone())).with("tier", J::s(args.tier.clone())) });
        }
        if sh.violations.len() >= 20 {
            return;
        }
    }
    if sh.samples.is_empty() {
        sh.sample(J::obj().with("catalogue", J::s(format!("{:?} x positions x variants; {:?} x 11 drivers x 3 transports", FAULTS, DFAULTS))));
    }
    sh.notes.insert("fault_catalogue".into(), J::s(format!("used-ring faults {:?}; driver-level faults {:?}", FAULTS, DFAULTS)));
}
