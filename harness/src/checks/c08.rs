//! C08 — every driver performs the init handshake and honours the negotiated features.
//! Ordered transport-event log (model transport calls or decoded register writes of the real
//! transports) checked by an automaton; feature-gated mechanisms checked on the device side.
use super::Args;
use crate::checks::c20::CmdDev;
use crate::devsim::{self, DViol, Policy};
use crate::drivers::{self, Drv};
use crate::evlog::{self, Ev};
use crate::hooks;
use crate::json::J;
use crate::mem::{self, HalMode};
use crate::report::{Shard, Violation};
use crate::rng::{Hash64, Rng};
use crate::xport_any::{self, TKind, ALL_KINDS};
use std::cell::RefCell;
use std::panic::{AssertUnwindSafe, catch_unwind};
use std::rc::Rc;

const ACK: u32 = 1;
const DRIVER: u32 = 2;
const DRIVER_OK: u32 = 4;
const FEATURES_OK: u32 = 8;

pub struct CaseOut {
    pub viol: Vec<DViol>,
    pub sample: Option<J>,
    pub reached: bool,
    pub counters: Vec<(&'static str, u64)>,
}

/// The handshake automaton over the construction log.
fn check_handshake(d: Drv, kind: TKind, offered: u64, log: &[Ev], v: &mut Vec<DViol>) -> Option<u64> {
    let mut fail = |rule: &'static str, detail: String| v.push(DViol { prop: "C08", rule, detail });
    let statuses: Vec<(usize, u32)> = log.iter().enumerate().filter_map(|(i, e)| if let Ev::SetStatus(s) = e { Some((i, *s)) } else { None }).collect();
    let pos = |p: &dyn Fn(&Ev) -> bool| log.iter().position(|e| p(e));
    let want = [0, ACK | DRIVER, ACK | DRIVER | FEATURES_OK, ACK | DRIVER | FEATURES_OK | DRIVER_OK];
    let got: Vec<u32> = statuses.iter().map(|s| s.1).collect();
    if got.len() < 4 || got[..4] != want {
        fail("status_sequence_wrong", format!("status writes during construction: {:x?}, expected {:x?}", got, want));
        return None;
    }
    if got.len() > 4 {
        fail("status_sequence_wrong", format!("extra status writes during construction: {:x?}", &got[4..]));
    }
    let (i_reset, i_ack, i_fok, i_dok) = (statuses[0].0, statuses[1].0, statuses[2].0, statuses[3].0);
    // nothing but the reset may precede ACKNOWLEDGE|DRIVER
    if log[..i_reset].iter().any(|e| !matches!(e, Ev::Note(_))) {
        fail("activity_before_reset", format!("events before the reset: {:?}", &log[..i_reset]));
    }
    let i_rf = pos(&|e| matches!(e, Ev::ReadFeatures(_)));
    let i_wf = pos(&|e| matches!(e, Ev::WriteFeatures(_)));
    let (Some(i_rf), Some(i_wf)) = (i_rf, i_wf) else {
        fail("features_not_negotiated", "no feature read/write during construction".into());
        return None;
    };
    if !(i_ack < i_rf && i_rf < i_wf && i_wf < i_fok) {
        fail("feature_negotiation_order", format!("ACK|DRIVER at {}, features read at {}, written at {}, FEATURES_OK at {}", i_ack, i_rf, i_wf, i_fok));
    }
    let written = log.iter().filter_map(|e| if let Ev::WriteFeatures(f) = e { Some(*f) } else { None }).next_back().unwrap();
    if written & !offered != 0 {
        fail("accepted_feature_not_offered", format!("driver wrote features {:#x}, device offered {:#x}", written, offered));
    }
    if offered & devsim::F_VERSION_1 != 0 && written & devsim::F_VERSION_1 == 0 {
        fail("version_1_not_accepted", format!("VERSION_1 offered but driver wrote {:#x}", written));
    }
    if written & !d.implemented() != 0 {
        fail("accepted_feature_not_implemented", format!("driver wrote features {:#x}; bits {:#x} are not implemented by the {} driver", written, written & !d.implemented(), d.name()));
    }
    // queues are configured between FEATURES_OK and DRIVER_OK
    for (i, e) in log.iter().enumerate() {
        match e {
            Ev::QueueSet { q, .. } => {
                if !(i_fok < i && i < i_dok) {
                    fail("queue_setup_outside_window", format!("queue {} set up at event {} (FEATURES_OK at {}, DRIVER_OK at {})", q, i, i_fok, i_dok));
                }
            }
            Ev::Notify { q } => {
                if i < i_dok {
                    fail("notify_before_driver_ok", format!("queue {} notified at event {} before DRIVER_OK (event {})", q, i, i_dok));
                }
            }
            _ => {}
        }
    }
    let nq = log.iter().filter(|e| matches!(e, Ev::QueueSet { .. })).count();
    if nq != d.queue_count() {
        fail("queue_count_wrong", format!("{} queues set up, the {} driver uses {}", nq, d.name(), d.queue_count()));
    }
    if kind == TKind::MmioLegacy {
        let gps = pos(&|e| matches!(e, Ev::GuestPageSize(4096)));
        let first_q = pos(&|e| matches!(e, Ev::QueueSet { .. }));
        if gps.is_none() || first_q.is_some_and(|q| gps.unwrap() > q) {
            fail("guest_page_size_missing", "legacy device: GuestPageSize not written before the first queue".into());
        }
    }
    Some(written)
}

pub fn one_case(d: Drv, kind: TKind, offered_in: u64, want_sample: bool) -> CaseOut {
    let mut out = CaseOut { viol: vec![], sample: None, reached: false, counters: vec![] };
    let mut offered = offered_in;
    if kind.legacy() {
        offered &= !devsim::F_VERSION_1;
    }
    mem::reset(HalMode::Bounce);
    hooks::clear();
    evlog::enable(true);
    let (rig, t) = xport_any::build(kind, d.device_type(), offered, d.config());
    evlog::take(); // transport construction itself is not part of the driver's handshake
    let dev = Rc::new(RefCell::new(CmdDev::new(&rig, d.queues(), Policy::OnNotify, offered)));
    drivers::install_auto_responder(d, &mut dev.borrow_mut());
    devsim::install_spin(&dev);
    let built = catch_unwind(AssertUnwindSafe(|| drivers::construct(d, t)));
    let log = evlog::take();
    let desc = format!("[{} on {} offered {:#x}]", d.name(), kind.name(), offered);
    let mut built = match built {
        Err(_) => {
            out.viol.push(DViol { prop: "C08", rule: "construction_panicked", detail: format!("driver construction panicked {}", desc) });
            evlog::enable(false);
            crate::mmio_bus::reset();
            return out;
        }
        Ok(Err(virtio_drivers::Error::Unsupported)) if d == Drv::P9 && offered & 1 == 0 => {
            // documented: the 9P driver needs the mount tag feature; nothing may have been read from
            // the configuration space and the device must not have been declared DRIVER_OK
            if log.iter().any(|e| matches!(e, Ev::ConfigRead { .. })) || log.iter().any(|e| matches!(e, Ev::SetStatus(s) if s & DRIVER_OK != 0)) {
                out.viol.push(DViol { prop: "C08", rule: "config_field_without_feature/9p_mount_tag", detail: format!("9P refused the device but had already read the tag / set DRIVER_OK {}", desc) });
            }
            out.reached = true;
            out.counters = vec![("refused_without_required_feature", 1)];
            evlog::enable(false);
            crate::mmio_bus::reset();
            return out;
        }
        Ok(Err(e)) => {
            // a refusal is only acceptable if something the driver needs is missing; these
            // configurations offer everything, so report it
            out.viol.push(DViol { prop: "C08", rule: "construction_failed", detail: format!("driver construction failed with {:?} {}", e, desc) });
            evlog::enable(false);
            crate::mmio_bus::reset();
            return out;
        }
        Ok(Ok(b)) => b,
    };
    out.reached = true;
    let negotiated = check_handshake(d, kind, offered, &log, &mut out.viol);
    let mut counters: Vec<(&'static str, u64)> = vec![("handshake_logs_checked", 1), ("handshake_events", log.len() as u64)];
    if let Some(neg) = negotiated {
        // feature-conditional configuration fields read during construction
        let cfg_reads: Vec<usize> = log.iter().filter_map(|e| if let Ev::ConfigRead { off, .. } = e { Some(*off) } else { None }).collect();
        match d {
            Drv::NetRaw | Drv::Net => {
                if neg & (1 << 16) == 0 && cfg_reads.iter().any(|o| (6..8).contains(o)) {
                    out.viol.push(DViol { prop: "C08", rule: "config_field_without_feature/net_status", detail: format!("network 'status' configuration field read although VIRTIO_NET_F_STATUS was not negotiated {}", desc) });
                }
                if cfg_reads.iter().any(|o| *o >= 8) {
                    out.viol.push(DViol { prop: "C08", rule: "config_field_without_feature", detail: format!("network max_virtqueue_pairs/mtu fields read (MQ/MTU are never negotiated) {}", desc) });
                }
            }
            Drv::P9 => {
                if neg & 1 == 0 && !cfg_reads.is_empty() {
                    out.viol.push(DViol { prop: "C08", rule: "config_field_without_feature/9p_mount_tag", detail: format!("9P mount tag read although VIRTIO_9P_F_MOUNT_TAG was not negotiated {}", desc) });
                }
            }
            _ => {}
        }
        // ---- usage under the negotiated set
        evlog::take();
        dev.borrow_mut().observe();
        let mut ops = vec![];
        let r = catch_unwind(AssertUnwindSafe(|| {
            drivers::use_briefly(&mut built, &mut ops)?;
            drivers::exercise_stocked(&mut built, &dev, &mut ops, neg)
        }));
        let ulog = evlog::take();
        match r {
            Err(_) => {
                if dev.borrow().viol.is_empty() {
                    out.viol.push(DViol { prop: "C08", rule: "usage_panicked", detail: format!("usage script panicked after {:?} {}", ops, desc) });
                }
            }
            Ok(Err((name, e))) => out.viol.push(DViol { prop: "C08", rule: "usage_failed", detail: format!("{} failed with {:?} against a device that behaves according to the negotiated features {}", name, e, desc) }),
            Ok(Ok(())) => counters.push(("usage_scripts_completed", 1)),
        }
        dev.borrow_mut().observe();
        // device-side feature gates
        let dv = dev.borrow();
        let (mut chains, mut ind) = (0u64, 0u64);
        for (qi, q) in dv.qs.iter() {
            chains += q.chains_seen;
            ind += q.indirect_seen;
            // event index machinery only with RING_EVENT_IDX, flags only without
            let ue = q.dev.used_event().unwrap_or(0);
            let af = q.dev.avail_flags().unwrap_or(0);
            if neg & devsim::F_EVENT_IDX == 0 && ue != 0 {
                out.viol.push(DViol { prop: "C08", rule: "used_event_written_without_event_idx", detail: format!("queue {}: used_event = {} although RING_EVENT_IDX was not negotiated {}", qi, ue, desc) });
            }
            if neg & devsim::F_EVENT_IDX != 0 && af != 0 {
                out.viol.push(DViol { prop: "C08", rule: "avail_flags_written_with_event_idx", detail: format!("queue {}: avail.flags = {} although RING_EVENT_IDX was negotiated {}", qi, af, desc) });
            }
            if neg & devsim::F_EVENT_IDX != 0 && q.completed > 0 && ue == 0 {
                out.viol.push(DViol { prop: "C08", rule: "event_idx_negotiated_but_not_used", detail: format!("queue {}: {} completions consumed but used_event still 0 with RING_EVENT_IDX negotiated {}", qi, q.completed, desc) });
            }
        }
        counters.push(("chains_seen_by_device", chains));
        counters.push(("indirect_chains_seen", ind));
        if neg & devsim::F_INDIRECT != 0 && matches!(d, Drv::Blk | Drv::Gpu | Drv::Rtc | Drv::P9 | Drv::Sound) && ind == 0 && chains > 0 {
            out.viol.push(DViol { prop: "C08", rule: "indirect_negotiated_but_not_used", detail: format!("RING_INDIRECT_DESC negotiated and multi-buffer requests sent, but no indirect descriptor was seen {}", desc) });
        }
        // requests that exist only under a feature
        let mut net_tx_seen = 0usize;
        for r in dv.log.iter() {
            match d {
                Drv::Blk if r.readable.len() >= 4 && r.readable[..4] == [4, 0, 0, 0] && neg & (1 << 9) == 0 => out.viol.push(DViol { prop: "C08", rule: "flush_without_feature", detail: format!("FLUSH request without VIRTIO_BLK_F_FLUSH {}", desc) }),
                Drv::Gpu if r.q == 0 && r.readable.len() >= 4 && r.readable[..4] == [0x0a, 1, 0, 0] && neg & 2 == 0 => out.viol.push(DViol { prop: "C08", rule: "edid_without_feature", detail: format!("GET_EDID without VIRTIO_GPU_F_EDID {}", desc) }),
                Drv::NetRaw | Drv::Net if r.q == 1 => {
                    let hdr = if neg & devsim::F_VERSION_1 != 0 { 12 } else { 10 };
                    // the usage script sends a non-empty frame, then an empty one (header-only chain)
                    let payload = if net_tx_seen % 2 == 1 { 0 } else if d == Drv::NetRaw { 4 } else { 60 };
                    net_tx_seen += 1;
                    if r.readable.len() != hdr + payload {
                        out.viol.push(DViol { prop: "C08", rule: "net_header_size_wrong", detail: format!("transmit chain of {} bytes for a {}-byte frame: header must be {} bytes {}", r.readable.len(), payload, hdr, desc) });
                    }
                }
                _ => {}
            }
        }
        drop(dv);
        // feature-conditional config accesses during usage
        if d == Drv::Console {
            let rd: Vec<usize> = ulog.iter().filter_map(|e| if let Ev::ConfigRead { off, .. } = e { Some(*off) } else { None }).collect();
            let wr: Vec<usize> = ulog.iter().filter_map(|e| if let Ev::ConfigWrite { off, .. } = e { Some(*off) } else { None }).collect();
            if neg & 1 == 0 && rd.iter().any(|o| *o < 4) {
                out.viol.push(DViol { prop: "C08", rule: "config_field_without_feature/console_size", detail: format!("console cols/rows read without VIRTIO_CONSOLE_F_SIZE {}", desc) });
            }
            if neg & 1 != 0 && !rd.iter().any(|o| *o < 4) {
                out.viol.push(DViol { prop: "C08", rule: "negotiated_feature_not_honoured", detail: format!("size() did not read cols/rows although SIZE was negotiated {}", desc) });
            }
            if (neg & 4 == 0) != wr.is_empty() {
                out.viol.push(DViol { prop: "C08", rule: "config_field_without_feature/console_emerg_wr", detail: format!("emergency write performed {} config writes with EMERG_WRITE negotiated = {} {}", wr.len(), neg & 4 != 0, desc) });
            }
        }
        // no notification may name a queue the driver does not have
        for e in ulog.iter() {
            if let Ev::Notify { q } = e {
                if !d.queues().contains(q) {
                    out.viol.push(DViol { prop: "C08", rule: "notify_unknown_queue", detail: format!("notification for queue {} {}", q, desc) });
                }
            }
        }
        // ACCESS_PLATFORM must be passed to every Hal call exactly as negotiated
        let ap = mem::with(|l| l.ap_calls);
        let want_ap = neg & devsim::F_ACCESS_PLATFORM != 0;
        if ap[(!want_ap) as usize] != 0 {
            out.viol.push(DViol { prop: "C08", rule: "hal_access_platform_mismatch", detail: format!("{} Hal calls carried access_platform={} although negotiated={} {}", ap[(!want_ap) as usize], !want_ap, want_ap, desc) });
        }
        counters.push(("hal_calls_checked_for_access_platform", ap[0] + ap[1]));
        if want_sample {
            out.sample = Some(J::obj().with("driver", J::s(d.name())).with("transport", J::s(kind.name())).with("offered", J::s(format!("{:#x}", offered))).with("negotiated", J::s(format!("{:#x}", neg))).with("construction_log", J::arr(log.iter().take(16).map(|e| J::s(format!("{:?}", e))))).with("usage", J::arr(ops.iter().map(|s| J::s(*s)))));
        }
    }
    hooks::clear();
    let dvv: Vec<DViol> = dev.borrow().viol.clone();
    for mut v in dvv {
        v.detail = format!("{} {}", v.detail, desc);
        out.viol.push(v);
    }
    let _ = catch_unwind(AssertUnwindSafe(move || drop(built)));
    for (r, dd) in rig.take_register_violations() {
        out.viol.push(DViol { prop: if matches!(rig.kind, TKind::Pci | TKind::SomePci) { "C11" } else { "C10" }, rule: r, detail: format!("{} {}", dd, desc) });
    }
    for v in mem::with(|l| l.take_violations()) {
        out.viol.push(DViol { prop: "C04", rule: v.rule, detail: format!("{} {}", v.detail, desc) });
    }
    out.counters = counters;
    evlog::enable(false);
    crate::mmio_bus::reset();
    out
}

/// The work list: (driver index, transport index, offered features).
fn work(args: &Args) -> Vec<(usize, usize, u64)> {
    let mut w = vec![];
    let irrelevant_pool: u64 = 0x0000_01fc_4b00_0000; // 24,25,27,30,34..40: generic bits nobody implements
    for (di, d) in drivers::ALL.iter().enumerate() {
        let bits = d.relevant_bits();
        let dev_specific_unknown: u64 = 0x0000_0000_00ff_ffc0 & !d.relevant_bits().iter().fold(0u64, |m, b| m | 1 << b);
        for (ki, k) in ALL_KINDS.iter().enumerate() {
            if args.is_miri() && !k.is_model() {
                continue;
            }
            let all_subsets = k.is_model() || args.thorough();
            let n = 1u64 << bits.len();
            let mut rng = Rng::derive(args.seed, 0xC08, di as u64, ki as u64);
            for s in 0..n {
                // on real transports in quick mode: every 5th subset (all of them in thorough)
                if !all_subsets && (s + ki as u64) % 5 != 0 {
                    continue;
                }
                let mut off = 0u64;
                for (i, b) in bits.iter().enumerate() {
                    if s >> i & 1 == 1 {
                        off |= 1 << b;
                    }
                }
                let fillings = if *k == TKind::Model { 4 } else { 1 };
                for f in 0..fillings {
                    let fill = match f {
                        0 => 0,
                        1 => irrelevant_pool | dev_specific_unknown,
                        _ => rng.next() & (irrelevant_pool | dev_specific_unknown),
                    };
                    w.push((di, ki, off | fill));
                }
            }
        }
    }
    if args.is_miri() {
        // a sample of the model-transport cases (every 97th): enough for the interpreter to see every driver's construction and usage script
        w = w.into_iter().step_by(97).collect();
    }
    w
}

pub fn run(args: &Args, sh: &mut Shard) {
    crate::xport_any::set_model_only(args.is_miri());
    if let Some(r) = &args.replay {
        let di = r.get("driver").and_then(|x| x.as_u64()).unwrap_or(0) as usize;
        let ki = r.get("transport").and_then(|x| x.as_u64()).unwrap_or(0) as usize;
        let off = r.get("offered").and_then(|x| x.as_str()).and_then(|s| u64::from_str_radix(s.trim_start_matches("0x"), 16).ok()).unwrap_or(0);
        let o = one_case(drivers::ALL[di], ALL_KINDS[ki], off, true);
        println!("REPLAY {} on {} offered {:#x}: {:#?}\n{}", drivers::ALL[di].name(), ALL_KINDS[ki].name(), off, o.viol, o.sample.map(|s| s.to_string()).unwrap_or_default());
        for v in o.viol {
            sh.violation(Violation { prop: v.prop.into(), signature: format!("{}/{}", v.prop, v.rule), detail: v.detail, replay: r.clone() });
        }
        sh.evaluations = 1;
        return;
    }
    let w = work(args);
    for (i, (di, ki, off)) in w.iter().enumerate() {
        if i as u64 % args.nshards != args.shard {
            continue;
        }
        let (d, k) = (drivers::ALL[*di], ALL_KINDS[*ki]);
        let o = one_case(d, k, *off, sh.want_sample() && i % 37 == 5);
        sh.evaluations += 1;
        if o.reached {
            let mut h = Hash64::new();
            h.u64(*di as u64 | (*ki as u64) << 8);
            h.u64(*off);
            sh.nontrivial.insert(h.finish());
        }
        for (kk, v) in &o.counters {
            sh.inc(kk, *v);
        }
        sh.inc(&format!("cases_{}", d.name()), 1);
        sh.inc(&format!("cases_on_{}", k.name()), 1);
        if let Some(s) = o.sample {
            sh.sample(s);
        }
        for v in o.viol {
            sh.violation(Violation { prop: v.prop.into(), signature: format!("{}/{}", v.prop, v.rule), detail: v.detail, replay: J::obj().with("driver", J::us(*di)).with("transport", J::us(*ki)).with("offered", J::s(format!("{:#x}", off))).with("build", J::s(args.build.clone())) });
        }
        if sh.violations.len() >= 16 {
            return;
        }
    }
    sh.notes.insert("exhaustive_subspace".into(), J::s("every subset of each driver's relevant feature bits (ring bits 28,29,32,33 + implemented + some unimplemented device-specific bits, <= 2^9) on the three model transports with 4 fillings of the irrelevant bits on 'model'; on the real transports every 5th subset in quick, every subset in thorough"));
}
