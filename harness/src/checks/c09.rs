//! C09 — teardown and failed construction free each resource once, after quiescing.
//! Fault plan "fail the k-th dma_alloc" for every k, plus drops with requests outstanding and
//! construction errors after DRIVER_OK; one merged, ordered event log (transport events, ledger
//! events, allocator-spy hits) checked by the liveness rule.
use super::Args;
use crate::alloc_spy;
use crate::checks::c20::CmdDev;
use crate::devsim::{self, DViol, Policy};
use crate::drivers::{self, Built, Drv};
use crate::evlog::{self, Ev};
use crate::hooks;
use crate::json::J;
use crate::mem::{self, HalMode};
use crate::report::{Shard, Violation};
use crate::rng::{Hash64, Rng};
use crate::xport_any::{self, TKind};
use std::cell::RefCell;
use std::panic::{AssertUnwindSafe, catch_unwind};
use std::rc::Rc;
use virtio_drivers::Error;
use virtio_drivers::device::blk::{BlkReq, BlkResp};
use virtio_drivers::device::sound::{PcmFeatures, PcmFormat, PcmRate};

pub const KINDS: [TKind; 6] = [TKind::Model, TKind::ModelNoUnset, TKind::ModelLegacy, TKind::MmioModern, TKind::MmioLegacy, TKind::Pci];

#[derive(Clone, Copy, Debug, PartialEq, Eq)]
pub enum Scenario {
    /// construct (+ brief use), then drop
    Plain,
    /// construct, leave requests / buffers outstanding, then drop
    Outstanding,
    /// a construction error that occurs after DRIVER_OK
    LateError,
}

pub struct CaseOut {
    pub viol: Vec<DViol>,
    pub allocs: u64,
    pub reached_fault: bool,
    pub counters: Vec<(&'static str, u64)>,
    pub sample: Option<J>,
}

/// The liveness rule over the merged log.
pub fn check_liveness(log: &[Ev], hits: &[(usize, usize, u64)], v: &mut Vec<DViol>, desc: &str) -> (u64, u64) {
    let mut allocs: Vec<(u64, u64)> = vec![]; // paddr, len
    let mut queues: std::collections::BTreeMap<u16, Vec<u64>> = Default::default(); // q -> region bases
    let mut driver_ok = false;
    let mut dealloc_checked = 0u64;
    let mut hit_iter = hits.iter().peekable();
    let mut hits_checked = 0u64;
    let region_base = |allocs: &[(u64, u64)], a: u64| allocs.iter().find(|(p, l)| a >= *p && a < p + l).map(|x| x.0);
    for (i, e) in log.iter().enumerate() {
        // allocator-spy hits that happened before this event
        while let Some(h) = hit_iter.peek() {
            if h.2 <= i as u64 {
                hits_checked += 1;
                if driver_ok && !queues.is_empty() {
                    v.push(DViol { prop: "C09", rule: "posted_buffer_freed_while_device_live", detail: format!("heap memory [{:#x},+{}) that is still shared with the device was freed while queues {:?} are live (event #{}) {}", h.0, h.1, queues.keys().collect::<Vec<_>>(), i, desc) });
                }
                hit_iter.next();
            } else {
                break;
            }
        }
        match e {
            Ev::DmaAlloc { paddr, pages, .. } => allocs.push((*paddr, (*pages * 4096) as u64)),
            Ev::SetStatus(s) => {
                if *s == 0 {
                    driver_ok = false;
                    queues.clear();
                } else if s & 4 != 0 {
                    driver_ok = true;
                }
            }
            Ev::TransportDrop => {
                driver_ok = false;
                queues.clear();
            }
            Ev::QueueSet { q, desc: d, device, .. } => {
                let mut r = vec![];
                for a in [*d, *device] {
                    if let Some(b) = region_base(&allocs, a) {
                        if !r.contains(&b) {
                            r.push(b);
                        }
                    }
                }
                queues.insert(*q, r);
            }
            Ev::QueueUnset { q } => {
                queues.remove(q);
            }
            Ev::DmaDealloc { paddr, .. } => {
                dealloc_checked += 1;
                if driver_ok {
                    for (q, regs) in queues.iter() {
                        if regs.contains(paddr) {
                            v.push(DViol { prop: "C09", rule: "queue_memory_freed_while_device_live", detail: format!("DMA region {:#x} of queue {} was released after DRIVER_OK and before the queue was disabled or the device reset (event #{}) {}", paddr, q, i, desc) });
                        }
                    }
                }
            }
            _ => {}
        }
    }
    for h in hit_iter {
        hits_checked += 1;
        if driver_ok && !queues.is_empty() {
            v.push(DViol { prop: "C09", rule: "posted_buffer_freed_while_device_live", detail: format!("heap memory [{:#x},+{}) still shared with the device was freed while the device is live {}", h.0, h.1, desc) });
        }
    }
    (dealloc_checked, hits_checked)
}

/// Things the harness must keep alive until after the driver is gone.
#[derive(Default)]
struct Keep {
    blk: Vec<(Box<BlkReq>, Vec<u8>, Box<BlkResp>)>,
    bufs: Vec<Vec<u8>>,
}

fn leave_outstanding(b: &mut Built, keep: &mut Keep) -> Result<u64, Error> {
    let mut n = 0;
    match b {
        Built::Blk(x) => {
            for i in 0..2 {
                keep.blk.push((Box::new(BlkReq::default()), vec![0u8; 512], Box::new(BlkResp::default())));
                let k = keep.blk.last_mut().unwrap();
                // SAFETY: the buffers are kept in `keep` until after the driver is dropped.
                unsafe { x.read_blocks_nb(i, &mut k.0, &mut k.1, &mut k.2)? };
                n += 1;
            }
        }
        Built::NetRaw(x) => {
            for _ in 0..2 {
                keep.bufs.push(vec![0u8; 2048]);
                let k = keep.bufs.last_mut().unwrap();
                // SAFETY: kept alive in `keep`.
                unsafe { x.receive_begin(k)? };
                n += 1;
            }
            keep.bufs.push(vec![0u8; 64]);
            // SAFETY: kept alive in `keep`.
            unsafe { x.transmit_begin(keep.bufs.last().unwrap())? };
            n += 1;
        }
        Built::Sound(x) => {
            x.pcm_set_params(0, 128, 64, PcmFeatures::empty(), 2, PcmFormat::S16, PcmRate::Rate44100)?;
            // two non-blocking PCM transfers stay posted on the tx queue (the device sits on them); an early
            // poll must report "not ready" and leave the posted frame and status buffers alone
            let t1 = x.pcm_xfer_nb(0, &[0x5a; 64])?;
            let _t2 = x.pcm_xfer_nb(0, &[0xa5; 64])?;
            if x.pcm_xfer_ok(t1).is_ok() {
                return Err(Error::InvalidParam);
            }
            n += 3;
        }
        Built::Gpu(x) => {
            x.setup_framebuffer()?;
            n += 1;
        }
        // console / input / net / socket keep receive buffers posted by themselves
        Built::Console(_) | Built::Input(_) | Built::Net(_) | Built::Socket(_) => n += 1,
        _ => {}
    }
    Ok(n)
}

pub fn one_case(d: Drv, kind: TKind, fail_at: Option<u64>, sc: Scenario, variant: u64, want_sample: bool) -> CaseOut {
    let mut out = CaseOut { viol: vec![], allocs: 0, reached_fault: false, counters: vec![], sample: None };
    mem::reset(HalMode::Bounce);
    hooks::clear();
    alloc_spy::enable(true);
    evlog::enable(true);
    let mut offered = devsim::F_VERSION_1 | d.implemented();
    // vary the ring features so that indirect tables / event idx paths are covered as well
    if variant & 1 == 0 {
        offered &= !devsim::F_INDIRECT;
    }
    if variant & 2 == 0 {
        offered &= !devsim::F_EVENT_IDX;
    }
    offered &= !devsim::F_ACCESS_PLATFORM;
    if kind.legacy() {
        offered &= !devsim::F_VERSION_1;
    }
    let mut cfg = d.config();
    if sc == Scenario::LateError && d == Drv::P9 {
        match variant % 3 {
            0 => {
                cfg[0] = 0;
                cfg[1] = 0;
            }
            1 => cfg[2] = 0xff, // invalid UTF-8
            _ => {
                cfg[0] = 200; // tag longer than the window
            }
        }
    }
    let (rig, t) = xport_any::build(kind, d.device_type(), offered, cfg);
    let dev = Rc::new(RefCell::new(CmdDev::new(&rig, d.queues(), Policy::Eager, variant)));
    drivers::install_auto_responder(d, &mut dev.borrow_mut());
    devsim::install_spin(&dev);
    mem::with(|l| {
        l.fail_alloc_at = fail_at;
        l.alloc_calls = 0;
    });
    let desc = format!("[{} on {} scenario {:?} fail_alloc_at {:?} variant {}]", d.name(), kind.name(), sc, fail_at, variant);
    let mut keep = Keep::default();
    let built = catch_unwind(AssertUnwindSafe(|| {
        if sc == Scenario::LateError && d == Drv::Net {
            // undersized receive buffers: the error surfaces after the inner driver reached DRIVER_OK
            return virtio_drivers::device::net::VirtIONet::<crate::mem::LedgerHal, xport_any::AnyT, 4>::new(t, 100).map(Built::Net);
        }
        drivers::construct(d, t)
    }));
    let mut ops: Vec<&'static str> = vec![];
    let mut usage: Result<(), (String, Error)> = Ok(());
    let mut built = match built {
        Err(_) => {
            out.viol.push(DViol { prop: "C09", rule: "panic_instead_of_error", detail: format!("driver construction panicked {}", desc) });
            None
        }
        Ok(Err(e)) => {
            let alloc_calls = mem::with(|l| l.alloc_calls);
            match (fail_at, sc) {
                (Some(k), _) if alloc_calls >= k => {
                    out.reached_fault = true;
                    if e != Error::DmaError {
                        out.viol.push(DViol { prop: "C09", rule: "wrong_error_for_failed_allocation", detail: format!("construction returned {:?} when allocation #{} failed {}", e, k, desc) });
                    }
                }
                (_, Scenario::LateError) => out.reached_fault = true,
                _ => out.viol.push(DViol { prop: "C09", rule: "construction_failed", detail: format!("construction failed with {:?} without an injected fault {}", e, desc) }),
            }
            None
        }
        Ok(Ok(b)) => Some(b),
    };
    if let Some(b) = built.as_mut() {
        dev.borrow_mut().observe();
        let r = catch_unwind(AssertUnwindSafe(|| match sc {
            Scenario::Outstanding => {
                // the device sits on the non-blocking requests; blocking set-up commands are still answered
                dev.borrow_mut().manual = match d {
                    Drv::Blk => vec![0],
                    Drv::NetRaw => vec![0, 1],
                    Drv::Sound => vec![1, 2],
                    _ => d.stocked_queues().to_vec(),
                };
                leave_outstanding(b, &mut keep).map(|_| ()).map_err(|e| ("leave_outstanding".to_string(), e))
            }
            _ => drivers::use_briefly(b, &mut ops),
        }));
        match r {
            Err(_) => {
                if dev.borrow().viol.is_empty() {
                    out.viol.push(DViol { prop: "C09", rule: "panic_instead_of_error", detail: format!("usage panicked after {:?} {}", ops, desc) });
                }
            }
            Ok(u) => usage = u,
        }
        let alloc_calls = mem::with(|l| l.alloc_calls);
        if let Err((name, e)) = &usage {
            match fail_at {
                Some(k) if alloc_calls >= k => {
                    out.reached_fault = true;
                    if *e != Error::DmaError {
                        out.viol.push(DViol { prop: "C09", rule: "wrong_error_for_failed_allocation", detail: format!("{} returned {:?} when allocation #{} failed {}", name, e, k, desc) });
                    }
                }
                _ => out.viol.push(DViol { prop: "C09", rule: "usage_failed", detail: format!("{} failed with {:?} {}", name, e, desc) }),
            }
        }
    }
    out.allocs = mem::with(|l| l.alloc_calls);
    if fail_at.is_none() {
        out.reached_fault = true;
    }
    // ---- drop everything the driver owns, then audit
    hooks::clear();
    let live_at_drop = mem::with(|l| l.live_regions());
    let dr = catch_unwind(AssertUnwindSafe(move || drop(built)));
    if dr.is_err() {
        out.viol.push(DViol { prop: "C09", rule: "panic_in_drop", detail: format!("dropping the driver panicked {}", desc) });
    }
    let log = evlog::take();
    let hits = alloc_spy::take_hits();
    alloc_spy::enable(false);
    drop(keep);
    let (deallocs, hitsn) = check_liveness(&log, &hits, &mut out.viol, &desc);
    let leaked = mem::with(|l| l.live_regions());
    if leaked != 0 {
        out.viol.push(DViol { prop: "C09", rule: "dma_region_leaked", detail: format!("{} DMA regions are still allocated after the driver (and a failed construction's leftovers) were dropped {}", leaked, desc) });
    }
    for lv in mem::with(|l| l.take_violations()) {
        let prop = if lv.rule.starts_with("dma_dealloc") { "C09" } else { "C04" };
        out.viol.push(DViol { prop, rule: lv.rule, detail: format!("{} {}", lv.detail, desc) });
    }
    let dv: Vec<DViol> = dev.borrow().viol.clone();
    for mut v in dv {
        v.detail = format!("{} {}", v.detail, desc);
        out.viol.push(v);
    }
    for (r, dd) in rig.take_register_violations() {
        out.viol.push(DViol { prop: if matches!(rig.kind, TKind::Pci | TKind::SomePci) { "C11" } else { "C10" }, rule: r, detail: format!("{} {}", dd, desc) });
    }
    out.counters = vec![("dma_deallocs_checked_against_liveness", deallocs), ("allocator_spy_hits_judged", hitsn), ("dma_regions_live_at_drop", live_at_drop as u64), ("merged_log_events", log.len() as u64)];
    if want_sample {
        out.sample = Some(J::obj().with("driver", J::s(d.name())).with("transport", J::s(kind.name())).with("scenario", J::s(format!("{:?}", sc))).with("fail_alloc_at", match fail_at { Some(k) => J::u(k), None => J::Null }).with("merged_log_tail", J::arr(log.iter().rev().take(14).rev().map(|e| J::s(format!("{:?}", e))))));
    }
    evlog::enable(false);
    crate::mmio_bus::reset();
    out
}

/// Work list: (driver, kind, scenario, fail_at, variant).
fn work(args: &Args) -> Vec<(usize, usize, Scenario, Option<u64>, u64)> {
    let mut w = vec![];
    let nvar = if args.is_miri() { 1 } else if args.thorough() { 4 } else { 2 };
    for (di, _d) in drivers::ALL.iter().enumerate() {
        for (ki, k) in KINDS.iter().enumerate() {
            if args.is_miri() && !k.is_model() {
                continue;
            }
            for var in 0..nvar {
                let variant = if nvar == 2 { var * 3 } else { var };
                // fail_at = None first (dry run); the k list is expanded by the runner once the count is known
                w.push((di, ki, Scenario::Plain, None, variant));
                w.push((di, ki, Scenario::Outstanding, None, variant));
            }
        }
    }
    for (ki, k) in KINDS.iter().enumerate() {
        if args.is_miri() && !k.is_model() {
            continue;
        }
        for v in 0..3 {
            w.push((drivers::ALL.iter().position(|d| *d == Drv::P9).unwrap(), ki, Scenario::LateError, None, v));
        }
        w.push((drivers::ALL.iter().position(|d| *d == Drv::Net).unwrap(), ki, Scenario::LateError, None, 0));
    }
    w
}

pub fn run(args: &Args, sh: &mut Shard) {
    crate::xport_any::set_model_only(args.is_miri());
    if let Some(r) = &args.replay {
        let g = |k: &str| r.get(k).and_then(|x| x.as_u64()).unwrap_or(0);
        let sc = match g("scenario") {
            0 => Scenario::Plain,
            1 => Scenario::Outstanding,
            _ => Scenario::LateError,
        };
        let fa = r.get("fail_at").and_then(|x| x.as_u64());
        let o = one_case(drivers::ALL[g("driver") as usize], KINDS[g("transport") as usize], fa, sc, g("variant"), true);
        println!("REPLAY: {:#?}\n{}", o.viol, o.sample.map(|s| s.to_string()).unwrap_or_default());
        for v in o.viol {
            sh.violation(Violation { prop: v.prop.into(), signature: format!("{}/{}", v.prop, v.rule), detail: v.detail, replay: r.clone() });
        }
        sh.evaluations = 1;
        return;
    }
    let w = work(args);
    let mut rng = Rng::derive(args.seed, 0xC09, args.shard, 0);
    for (i, (di, ki, sc, _, variant)) in w.iter().enumerate() {
        if i as u64 % args.nshards != args.shard {
            continue;
        }
        let (d, k) = (drivers::ALL[*di], KINDS[*ki]);
        let variant = *variant ^ ((rng.next() & 0) as u64);
        let mut run = |fail_at: Option<u64>, sh: &mut Shard| -> u64 {
            let o = one_case(d, k, fail_at, *sc, variant, sh.want_sample() && fail_at == Some(2));
            sh.evaluations += 1;
            if o.reached_fault {
                let mut h = Hash64::new();
                h.u64(*di as u64 | (*ki as u64) << 8 | (*sc as u64) << 16 | variant << 24);
                h.u64(fail_at.map(|x| x + 1).unwrap_or(0));
                sh.nontrivial.insert(h.finish());
            } else {
                sh.inc("fault_not_reached", 1);
            }
            for (kk, v) in &o.counters {
                sh.inc(kk, *v);
            }
            sh.inc(match sc { Scenario::Plain => "cases_plain", Scenario::Outstanding => "cases_drop_with_outstanding", Scenario::LateError => "cases_late_construction_error" }, 1);
            if fail_at.is_some() {
                sh.inc("cases_with_injected_allocation_failure", 1);
            }
            if let Some(s) = o.sample {
                sh.sample(s);
            }
            for v in o.viol {
                sh.violation(Violation {
                    prop: v.prop.into(),
                    signature: format!("{}/{}", v.prop, v.rule),
                    detail: v.detail,
                    replay: J::obj().with("driver", J::us(*di)).with("transport", J::us(*ki)).with("scenario", J::u(*sc as u64)).with("variant", J::u(variant)).with("fail_at", match fail_at { Some(x) => J::u(x), None => J::Null }).with("build", J::s(args.build.clone())),
                });
            }
            o.allocs
        };
        let a0 = run(None, sh);
        if *sc != Scenario::LateError {
            // every k = 1 ..= (allocations of the fault-free run) + 1
            for kf in 1..=a0 + 1 {
                run(Some(kf), sh);
                if sh.violations.len() >= 16 {
                    return;
                }
            }
            sh.max("max_allocations_in_one_run", a0);
        }
        if sh.violations.len() >= 16 {
            return;
        }
    }
    sh.notes.insert("exhaustive_subspace".into(), J::s("for every driver (11) x transport variant (6) x ring-feature variant x scenario {plain use, drop with requests outstanding}: the fault-free run and every k = 1..=A+1 where A is the number of dma_alloc calls of the fault-free run; plus 9P bad-tag and net undersized-buffer construction errors after DRIVER_OK"));
}
