//! C10 — the MMIO transport performs exactly the prescribed register accesses.
//! The real `MmioTransport` (and `SomeTransport::Mmio`) runs on the emulated register file; each
//! Transport operation is executed alone, its bus trace is checked against per-operation rules and
//! the register-level device's own strict checker, and its result against the device's state.
use super::Args;
use crate::json::J;
use crate::mmio_bus::{self, Access};
use crate::report::{Shard, Violation};
use crate::rng::{Hash64, Rng};
use crate::xport_mmio::{self, MAGIC, MmioDev, reg_name};
use crate::xport_model::ModelState;
use std::cell::RefCell;
use std::panic::{AssertUnwindSafe, catch_unwind};
use std::ptr::NonNull;
use std::rc::Rc;
use virtio_drivers::transport::mmio::{MmioError, MmioTransport, VirtIOHeader};
use virtio_drivers::transport::{DeviceStatus, DeviceType, SomeTransport, Transport};

type V = Vec<(String, String)>;

struct Ctx {
    dev: Rc<RefCell<MmioDev>>,
    base: u64,
    legacy: bool,
    viol: V,
    ops: u64,
    accesses: u64,
}

impl Ctx {
    fn v(&mut self, rule: &str, d: String) {
        if self.viol.len() < 16 {
            self.viol.push((rule.to_string(), d));
        }
    }
    /// Run one transport operation in isolation; returns its result and its access list (offsets relative to the header).
    /// Like `op`, for a call outside the transport's documented preconditions: a refusal by panic is accepted,
    /// only the register accesses performed are returned.
    fn op_may_refuse<R>(&mut self, name: &str, f: impl FnOnce() -> R) -> Vec<Access> {
        self.dev.borrow_mut().begin_op();
        mmio_bus::trace(true);
        let _ = catch_unwind(AssertUnwindSafe(f));
        let mut tr = mmio_bus::take_trace();
        mmio_bus::trace(false);
        for a in tr.iter_mut() {
            a.addr = a.addr.wrapping_sub(self.base);
        }
        self.ops += 1;
        self.accesses += tr.len() as u64;
        for a in mmio_bus::take_unmapped() {
            self.v("access_outside_region", format!("{}: {:?}", name, a));
        }
        let _ = self.dev.borrow_mut().take_viol();
        tr
    }

    fn op<R>(&mut self, name: &str, f: impl FnOnce() -> R) -> Option<(R, Vec<Access>)> {
        self.dev.borrow_mut().begin_op();
        mmio_bus::trace(true);
        let r = catch_unwind(AssertUnwindSafe(f));
        let mut tr = mmio_bus::take_trace();
        mmio_bus::trace(false);
        for a in tr.iter_mut() {
            a.addr = a.addr.wrapping_sub(self.base);
        }
        self.ops += 1;
        self.accesses += tr.len() as u64;
        for a in mmio_bus::take_unmapped() {
            self.v("access_outside_region", format!("{}: {:?}", name, a));
        }
        let dv = self.dev.borrow_mut().take_viol();
        for (rule, d) in dv {
            self.v(rule, format!("{}: {}", name, d));
        }
        match r {
            Err(_) => {
                self.v("panic_in_transport_op", format!("{} panicked", name));
                None
            }
            Ok(r) => Some((r, tr)),
        }
    }
    /// Every access must be to one of `allowed` (offsets).
    fn only(&mut self, name: &str, tr: &[Access], allowed: &[u64]) {
        for a in tr {
            if !allowed.contains(&a.addr) {
                self.v("operation_touched_other_register", format!("{} {} {} ({:#x})", name, if a.write { "wrote" } else { "read" }, reg_name(a.addr), a.addr));
            }
        }
    }
    fn wrote(&mut self, name: &str, tr: &[Access], off: u64, val: u32) {
        let ws: Vec<&Access> = tr.iter().filter(|a| a.write && a.addr == off).collect();
        if ws.len() != 1 || ws[0].value as u32 != val {
            self.v("register_write_missing_or_wrong", format!("{}: expected exactly one write of {:#x} to {} ({:#x}), saw {:?}", name, val, reg_name(off), off, ws.iter().map(|a| a.value).collect::<Vec<_>>()));
        }
    }
    fn first_is_sel(&mut self, name: &str, tr: &[Access], q: u16) {
        match tr.first() {
            Some(a) if a.write && a.addr == 0x30 && a.value as u32 == q as u32 => {}
            other => self.v("queue_not_selected_first", format!("{}: first access is {:?}, expected a write of {} to QueueSel", name, other, q)),
        }
    }
    fn no_reads(&mut self, name: &str, tr: &[Access]) {
        if let Some(a) = tr.iter().find(|a| !a.write) {
            self.v("unexpected_register_read", format!("{}: read of {} ({:#x})", name, reg_name(a.addr), a.addr));
        }
    }
    fn no_writes(&mut self, name: &str, tr: &[Access]) {
        if let Some(a) = tr.iter().find(|a| a.write) {
            self.v("unexpected_register_write", format!("{}: write of {:#x} to {} ({:#x})", name, a.value, reg_name(a.addr), a.addr));
        }
    }
}

fn rand_addr(rng: &mut Rng, align: u64) -> u64 {
    let mut a = match rng.below(6) {
        0 => rng.next() & 0xffff_ffff,
        1 => rng.next(),
        2 => (rng.next() & 0xffff_ffff) | 1 << 31,
        3 => (rng.next() & 0xffff_ffff) | 1 << 32,
        4 => rng.next() | 1 << 63,
        _ => 0xffff_ffff_ffff_f000,
    };
    a &= !(align - 1);
    if a == 0 { align * 3 } else { a }
}

fn pick_q(rng: &mut Rng) -> u16 {
    *rng.pick(&[0u16, 1, 7, 0xffff, 2, 3])
}

/// Exercise every Transport operation `rounds` times in random order with random arguments.
fn exercise<T: Transport>(t: &mut T, c: &mut Ctx, rng: &mut Rng, rounds: usize, sh: &mut Shard) {
    let st = c.dev.borrow().st.clone();
    for _ in 0..rounds {
        if !c.viol.is_empty() {
            return;
        }
        match rng.below(13) {
            0 => {
                let q = pick_q(rng);
                let m = *rng.pick(&[0u32, 1, 16, 1024, 32768, 65536, 0xffff_ffff]);
                st.borrow_mut().max_queue.insert(q, m);
                if let Some((r, tr)) = c.op("max_queue_size", || t.max_queue_size(q)) {
                    c.first_is_sel("max_queue_size", &tr, q);
                    c.only("max_queue_size", &tr, &[0x30, 0x34]);
                    if r != m {
                        c.v("wrong_result", format!("max_queue_size({}) = {} but QueueNumMax is {}", q, r, m));
                    }
                    sh.inc("op_max_queue_size", 1);
                }
            }
            1 => {
                let q = pick_q(rng);
                if let Some((_, tr)) = c.op("notify", || t.notify(q)) {
                    c.only("notify", &tr, &[0x50]);
                    c.wrote("notify", &tr, 0x50, q as u32);
                    c.no_reads("notify", &tr);
                    sh.inc("op_notify", 1);
                }
                st.borrow_mut().take_notifications();
            }
            2 => {
                let s = rng.next() as u32 & 0xff;
                st.borrow_mut().status = s;
                if let Some((r, tr)) = c.op("get_status", || t.get_status()) {
                    c.only("get_status", &tr, &[0x70]);
                    c.no_writes("get_status", &tr);
                    if r.bits() != s {
                        c.v("wrong_result", format!("get_status() = {:#x} but Status is {:#x}", r.bits(), s));
                    }
                    sh.inc("op_get_status", 1);
                }
            }
            3 => {
                // non-zero status (0 would reset the model's queues, exercised by drop)
                let s = (rng.next() as u32 & 0xff) | 1;
                if let Some((_, tr)) = c.op("set_status", || t.set_status(DeviceStatus::from_bits_retain(s))) {
                    c.only("set_status", &tr, &[0x70]);
                    c.wrote("set_status", &tr, 0x70, s);
                    c.no_reads("set_status", &tr);
                    sh.inc("op_set_status", 1);
                }
            }
            4 => {
                let f = match rng.below(4) {
                    0 => rng.next(),
                    1 => rng.next() & 0xffff_ffff,
                    2 => rng.next() << 32,
                    _ => 1 << 31 | 1 << 32 | rng.next(),
                };
                st.borrow_mut().offered = f;
                if let Some((r, tr)) = c.op("read_device_features", || t.read_device_features()) {
                    c.only("read_device_features", &tr, &[0x10, 0x14]);
                    if r != f {
                        c.v("wrong_result", format!("read_device_features() = {:#018x} but the device offers {:#018x}", r, f));
                    }
                    sh.inc("op_read_device_features", 1);
                }
            }
            5 => {
                let f = match rng.below(3) {
                    0 => rng.next(),
                    1 => 1 << 31 | rng.next() & 0xffff_ffff,
                    _ => 1 << 32 | rng.next(),
                };
                if let Some((_, tr)) = c.op("write_driver_features", || t.write_driver_features(f)) {
                    c.only("write_driver_features", &tr, &[0x20, 0x24]);
                    c.no_reads("write_driver_features", &tr);
                    let got = c.dev.borrow().drv_feat;
                    if got != f {
                        c.v("wrong_register_value", format!("write_driver_features({:#018x}) left the device with {:#018x}", f, got));
                    }
                    sh.inc("op_write_driver_features", 1);
                }
            }
            6 => {
                let ps = 4096u32;
                if let Some((_, tr)) = c.op("set_guest_page_size", || t.set_guest_page_size(ps)) {
                    if c.legacy {
                        c.only("set_guest_page_size", &tr, &[0x28]);
                        c.wrote("set_guest_page_size", &tr, 0x28, ps);
                    } else if !tr.is_empty() {
                        c.v("operation_touched_other_register", format!("set_guest_page_size on a modern device performed {:?}", tr));
                    }
                    sh.inc("op_set_guest_page_size", 1);
                }
            }
            7 | 8 => {
                // queue_set then (sometimes) queue_used / queue_unset
                let q = pick_q(rng);
                let size = 1u32 << rng.below(16);
                // make sure the queue is not ready (the spec forbids reprogramming a live queue)
                if st.borrow().queues.contains_key(&q) {
                    let _ = c.op("queue_unset(pre)", || t.queue_unset(q));
                }
                let (d, a, u);
                if c.legacy && rng.below(8) == 0 {
                    // outside the legacy precondition "PFN fits in 32 bits" (seed S138): a consistent legacy layout at a
                    // page-aligned address >= 2^44.  No 32-bit page frame number describes it, so whatever else the
                    // transport does (the library refuses by assertion), it must not write QueuePFN - that would enable
                    // the queue at a different physical page.
                    let pfn = (1u64 << 32 | rng.below(1 << 32)) << rng.below(8);
                    let d = pfn * 4096;
                    let a = d + 16 * size as u64;
                    let u = (a + 6 + 2 * size as u64 + 4096) & !4095;
                    if c.dev.borrow().guest_page_size.is_none() {
                        let _ = c.op("set_guest_page_size", || t.set_guest_page_size(4096));
                    }
                    let tr = c.op_may_refuse("queue_set(unrepresentable pfn)", || t.queue_set(q, size, d, a, u));
                    if let Some(x) = tr.iter().find(|x| x.addr == 0x40 && x.write) {
                        c.v("legacy_pfn_truncated", format!("legacy queue_set with descriptor table at {:#x} (page frame {:#x} does not fit in 32 bits) wrote QueuePFN = {:#x}", d, pfn, x.value));
                    }
                    sh.inc("op_queue_set_legacy_unrepresentable_pfn", 1);
                    // the transport object may have been left mid-operation by the refusal: end this case here
                    break;
                }
                if c.legacy {
                    // legacy preconditions: page aligned, contiguous layout, PFN fits in 32 bits
                    let pfn = match rng.below(3) {
                        0 => 1 + rng.below(1 << 20),
                        1 => 0xffff_fff0 - rng.below(1 << 20),
                        _ => 1 << 31 | rng.below(1 << 20),
                    };
                    d = pfn * 4096;
                    a = d + 16 * size as u64;
                    u = (a + 6 + 2 * size as u64 + 4096) & !4095;
                    if c.dev.borrow().guest_page_size.is_none() {
                        let _ = c.op("set_guest_page_size", || t.set_guest_page_size(4096));
                    }
                } else {
                    d = rand_addr(rng, 16);
                    a = rand_addr(rng, 2);
                    u = rand_addr(rng, 4);
                }
                if let Some((_, tr)) = c.op("queue_set", || t.queue_set(q, size, d, a, u)) {
                    c.first_is_sel("queue_set", &tr, q);
                    c.no_reads("queue_set", &tr);
                    if c.legacy {
                        c.only("queue_set", &tr, &[0x30, 0x38, 0x3c, 0x40]);
                        c.wrote("queue_set", &tr, 0x38, size);
                        c.wrote("queue_set", &tr, 0x3c, 4096);
                        c.wrote("queue_set", &tr, 0x40, (d / 4096) as u32);
                        if !matches!(tr.last(), Some(x) if x.addr == 0x40) {
                            c.v("queue_enabled_before_parameters", "legacy queue_set: QueuePFN is not the last register written".into());
                        }
                    } else {
                        c.only("queue_set", &tr, &[0x30, 0x38, 0x44, 0x80, 0x84, 0x90, 0x94, 0xa0, 0xa4]);
                        c.wrote("queue_set", &tr, 0x38, size);
                        c.wrote("queue_set", &tr, 0x80, d as u32);
                        c.wrote("queue_set", &tr, 0x84, (d >> 32) as u32);
                        c.wrote("queue_set", &tr, 0x90, a as u32);
                        c.wrote("queue_set", &tr, 0x94, (a >> 32) as u32);
                        c.wrote("queue_set", &tr, 0xa0, u as u32);
                        c.wrote("queue_set", &tr, 0xa4, (u >> 32) as u32);
                        c.wrote("queue_set", &tr, 0x44, 1);
                        if !matches!(tr.last(), Some(x) if x.addr == 0x44) {
                            c.v("queue_enabled_before_parameters", "modern queue_set: QueueReady is not the last register written".into());
                        }
                    }
                    let reg = st.borrow().queues.get(&q).copied();
                    match reg {
                        Some(r) if r.size == size && r.desc == d && r.driver == a && r.device == u => {}
                        other => c.v("wrong_register_value", format!("queue_set({}, {}, {:#x}, {:#x}, {:#x}) registered {:x?}", q, size, d, a, u, other)),
                    }
                    sh.inc("op_queue_set", 1);
                }
                if rng.bool() {
                    if let Some((r, tr)) = c.op("queue_used", || t.queue_used(q)) {
                        c.first_is_sel("queue_used", &tr, q);
                        c.only("queue_used", &tr, &[0x30, if c.legacy { 0x40 } else { 0x44 }]);
                        if !r {
                            c.v("wrong_result", format!("queue_used({}) = false right after queue_set", q));
                        }
                        sh.inc("op_queue_used", 1);
                    }
                }
                if rng.chance(2, 3) {
                    c.dev.borrow_mut().ready_lag = rng.below(4) as u32;
                    let others: Vec<u16> = st.borrow().queues.keys().copied().filter(|k| *k != q).collect();
                    if let Some((_, tr)) = c.op("queue_unset", || t.queue_unset(q)) {
                        c.first_is_sel("queue_unset", &tr, q);
                        if c.legacy {
                            c.only("queue_unset", &tr, &[0x30, 0x38, 0x3c, 0x40]);
                            c.wrote("queue_unset", &tr, 0x40, 0);
                        } else {
                            c.only("queue_unset", &tr, &[0x30, 0x38, 0x44, 0x80, 0x84, 0x90, 0x94, 0xa0, 0xa4]);
                            // QueueReady=0 must come before the parameters are cleared and must be read back as 0
                            let pos0 = tr.iter().position(|x| x.write && x.addr == 0x44 && x.value == 0);
                            let first_clear = tr.iter().position(|x| x.write && x.addr != 0x30 && x.addr != 0x44);
                            let last_ready_read = tr.iter().rposition(|x| !x.write && x.addr == 0x44);
                            match (pos0, last_ready_read) {
                                (Some(p), Some(r)) if tr[r].value == 0 && r > p && first_clear.is_none_or(|f| f > r) => {}
                                _ => c.v("queue_disable_not_synchronised", format!("queue_unset: QueueReady=0 write at {:?}, last read-back at {:?}, first parameter clear at {:?}", pos0, last_ready_read, first_clear)),
                            }
                        }
                        if st.borrow().queues.contains_key(&q) {
                            c.v("wrong_register_value", format!("queue {} still registered after queue_unset", q));
                        }
                        let others_now: Vec<u16> = st.borrow().queues.keys().copied().collect();
                        if others_now != others {
                            c.v("other_queue_affected", format!("queue_unset({}) changed the set of other live queues {:?} -> {:?}", q, others, others_now));
                        }
                        sh.inc("op_queue_unset", 1);
                    }
                    if let Some((r, tr)) = c.op("queue_used", || t.queue_used(q)) {
                        c.first_is_sel("queue_used", &tr, q);
                        if r {
                            c.v("wrong_result", format!("queue_used({}) = true after queue_unset", q));
                        }
                        sh.inc("op_queue_used", 1);
                    }
                }
            }
            9 => {
                let isr = rng.below(4) as u32 | if rng.chance(1, 4) { (rng.next() as u32) & !3 } else { 0 };
                st.borrow_mut().isr = isr;
                if let Some((r, tr)) = c.op("ack_interrupt", || t.ack_interrupt()) {
                    c.only("ack_interrupt", &tr, &[0x60, 0x64]);
                    if r.bits() != isr & 3 {
                        c.v("wrong_result", format!("ack_interrupt() = {:#x} with InterruptStatus {:#x}", r.bits(), isr));
                    }
                    if isr != 0 {
                        c.wrote("ack_interrupt", &tr, 0x64, isr);
                        if st.borrow().isr != 0 {
                            c.v("wrong_register_value", "interrupt bits left pending after ack_interrupt".into());
                        }
                    }
                    sh.inc("op_ack_interrupt", 1);
                }
            }
            10 => {
                let g = rng.next() as u32;
                st.borrow_mut().config_gen = g;
                if let Some((r, tr)) = c.op("read_config_generation", || t.read_config_generation()) {
                    c.only("read_config_generation", &tr, &[0xfc]);
                    c.no_writes("read_config_generation", &tr);
                    if r != g {
                        c.v("wrong_result", format!("read_config_generation() = {} but register holds {}", r, g));
                    }
                    sh.inc("op_read_config_generation", 1);
                }
            }
            11 => {
                if let Some((r, tr)) = c.op("requires_legacy_layout", || t.requires_legacy_layout()) {
                    if !tr.is_empty() || r != c.legacy {
                        c.v("wrong_result", format!("requires_legacy_layout() = {} on a version-{} device ({} accesses)", r, if c.legacy { 1 } else { 2 }, tr.len()));
                    }
                }
            }
            _ => {
                // an in-window config read: exactly the bytes of the field
                let len = st.borrow().config.len();
                if len >= 4 {
                    let off = (rng.below((len / 4) as u64) * 4) as usize;
                    let want = u32::from_le_bytes(st.borrow().config[off..off + 4].try_into().unwrap());
                    if let Some((r, tr)) = c.op("read_config_space", || t.read_config_space::<u32>(off)) {
                        if r != Ok(want) || tr.len() != 1 || tr[0].addr != 0x100 + off as u64 || tr[0].width != 4 || tr[0].write {
                            c.v("config_access_wrong", format!("read_config_space::<u32>({}) = {:?} via {:?}, expected {:#x} via one 4-byte read at {:#x}", off, r, tr, want, 0x100 + off));
                        }
                        sh.inc("op_read_config_space", 1);
                    }
                }
            }
        }
    }
}

fn one_transport_case(case: u64, seed: u64, sh: &mut Shard) -> V {
    let mut rng = Rng::derive(seed, 0xC10, case, 0);
    let legacy = rng.bool();
    let via_some = rng.bool();
    mmio_bus::reset();
    let dtypes = [1u32, 2, 3, 4, 9, 16, 18, 19, 25];
    let did = *rng.pick(&dtypes);
    let st = ModelState::new(DeviceType::try_from(did).unwrap(), rng.next());
    st.borrow_mut().config = (0..64u32).map(|i| (i * 37 + 11) as u8).collect();
    let dev = MmioDev::new(&st, if legacy { 1 } else { 2 }, did);
    let size = 0x100 + 64;
    let (base, devrc) = xport_mmio::map_device(dev, 1, size as u64);
    devrc.borrow_mut().per_op_sel_rule = true;
    let mut c = Ctx { dev: devrc.clone(), base, legacy, viol: vec![], ops: 0, accesses: 0 };
    // construction (probe) — reads only
    let tr = c.op("new", || unsafe { MmioTransport::new(NonNull::new(base as *mut VirtIOHeader).unwrap(), size) });
    let Some((Ok(t), trace)) = tr else {
        c.v("probe_rejected_valid_device", "MmioTransport::new failed on a well-formed device".into());
        return c.viol;
    };
    c.no_writes("new", &trace);
    c.only("new", &trace, &[0x0, 0x4, 0x8]);
    let rounds = 60;
    if via_some {
        let mut s: SomeTransport = t.into();
        if s.device_type() as u32 != did {
            c.v("wrong_result", "device_type through SomeTransport".into());
        }
        exercise(&mut s, &mut c, &mut rng, rounds, sh);
        drop_check(&mut c, move || drop(s));
        sh.inc("cases_via_some_transport", 1);
    } else {
        let mut t = t;
        if t.device_type() as u32 != did {
            c.v("wrong_result", format!("device_type() = {:?} for DeviceID {}", t.device_type(), did));
        }
        exercise(&mut t, &mut c, &mut rng, rounds, sh);
        drop_check(&mut c, move || drop(t));
    }
    sh.inc(if legacy { "cases_legacy" } else { "cases_modern" }, 1);
    sh.inc("transport_operations_checked", c.ops);
    sh.inc("register_accesses_checked", c.accesses);
    sh.inc("legacy_generation_reads_tolerated", devrc.borrow().legacy_gen_reads);
    mmio_bus::reset();
    c.viol
}

fn drop_check(c: &mut Ctx, f: impl FnOnce()) {
    if let Some((_, tr)) = c.op("drop", f) {
        match tr.last() {
            Some(a) if a.write && a.addr == 0x70 && a.value == 0 => {}
            other => c.v("no_reset_on_drop", format!("last access when the transport was dropped: {:?} (expected Status=0)", other)),
        }
        c.only("drop", &tr, &[0x70]);
    }
}

/// Probe with an arbitrary header and region size.
fn one_probe_case(case: u64, seed: u64, sh: &mut Shard) -> V {
    let mut rng = Rng::derive(seed, 0xC10B, case, 0);
    mmio_bus::reset();
    let st = ModelState::new(DeviceType::Block, 0);
    let mut dev = MmioDev::new(&st, 2, 2);
    let pick32 = |rng: &mut Rng, good: u32| match rng.below(8) {
        0 => good.wrapping_add(1),
        1 => good.wrapping_sub(1),
        2 => 0,
        3 => 0xffff_ffff,
        4 => rng.next() as u32,
        5 => good.swap_bytes(),
        _ => good,
    };
    dev.magic = pick32(&mut rng, MAGIC);
    dev.version = match rng.below(6) {
        0 => 0,
        1 => 3,
        2 => rng.next() as u32,
        3 => 1,
        _ => 2,
    };
    dev.device_id = match rng.below(10) {
        0 => 0,
        1 => rng.below(40) as u32,
        2 => 14 + rng.below(2) as u32, // 14, 15 are not assigned in this library
        3 => 26 + rng.below(100) as u32,
        4 => 0xffff_ffff,
        // a known id in the low byte / low half-word of a wider value; an arbitrary 32-bit value
        5 => *rng.pick(&[1u32, 2, 3, 4, 5, 9, 13, 16, 18, 19, 25]) | (1 + rng.below(0xff_ffff) as u32) << 8,
        6 => *rng.pick(&[1u32, 2, 4, 16, 19]) | (1 + rng.below(0xffff) as u32) << 16,
        7 => rng.next() as u32,
        _ => *rng.pick(&[1u32, 2, 3, 4, 5, 9, 13, 16, 18, 19, 25]),
    };
    let size = *rng.pick(&[0usize, 0xff, 0x100, 0x101, 0x200, 0x1000, 4, 0xfc]);
    let (magic, version, did) = (dev.magic, dev.version, dev.device_id);
    // map a full window so that stray accesses are seen by the device model rather than lost
    let (base, devrc) = xport_mmio::map_device(dev, 2, 0x1000);
    let mut c = Ctx { dev: devrc, base, legacy: version == 1, viol: vec![], ops: 0, accesses: 0 };
    let r = c.op("new", || unsafe { MmioTransport::new(NonNull::new(base as *mut VirtIOHeader).unwrap(), size) });
    // wrong-version registers are not an issue at probe time (only magic/version/device id may be read)
    c.viol.retain(|v| v.0 != "register_of_other_version");
    let known = matches!(did, 1..=13 | 16..=25);
    let should_accept = magic == MAGIC && (version == 1 || version == 2) && known && size >= 0x100;
    if let Some((res, tr)) = r {
        c.no_writes("probe", &tr);
        c.only("probe", &tr, &[0x0, 0x4, 0x8]);
        let accepted = res.is_ok();
        if accepted != should_accept {
            c.v("probe_acceptance_wrong", format!("MmioTransport::new with magic={:#x} version={} device_id={} size={:#x} returned {:?}", magic, version, did, size, res.as_ref().map(|_| "Ok").map_err(|e| e.clone())));
        }
        if size < 0x100 && !tr.is_empty() {
            c.v("probe_accessed_undersized_region", format!("region of {:#x} bytes was accessed: {:?}", size, tr));
        }
        sh.inc(if accepted { "probes_accepted" } else { "probes_rejected" }, 1);
        if let Err(e) = &res {
            sh.inc(
                match e {
                    MmioError::BadMagic(_) => "probe_err_bad_magic",
                    MmioError::UnsupportedVersion(_) => "probe_err_version",
                    MmioError::InvalidDeviceID(_) => "probe_err_device_id",
                    MmioError::MmioRegionTooSmall => "probe_err_region_too_small",
                },
                1,
            );
        }
        if let Ok(t) = res {
            // dropping an accepted transport resets the device; not part of probing
            let _ = c.op("drop", move || drop(t));
            c.viol.retain(|v| v.0 != "register_of_other_version");
        }
    }
    mmio_bus::reset();
    c.viol
}

pub fn run(args: &Args, sh: &mut Shard) {
    if args.is_miri() {
        sh.inconclusive.push("C10 uses fabricated MMIO addresses; not run under Miri".into());
        return;
    }
    if let Some(r) = &args.replay {
        let case = r.get("case").and_then(|x| x.as_u64()).unwrap_or(0);
        let kind = r.get("kind").and_then(|x| x.as_str()).unwrap_or("transport");
        let vs = if kind == "probe" { one_probe_case(case, args.seed, sh) } else { one_transport_case(case, args.seed, sh) };
        println!("REPLAY {} case {}: {:?}", kind, case, vs);
        for (rule, d) in vs {
            sh.violation(Violation { prop: "C10".into(), signature: format!("C10/{}", rule), detail: d, replay: J::obj().with("kind", J::s(kind)).with("case", J::u(case)) });
        }
        sh.evaluations = 1;
        return;
    }
    let n_t = args.scaled(if args.thorough() { 1_600_000 } else { 96_000 });
    let n_p = args.scaled(if args.thorough() { 1 << 22 } else { 1 << 18 });
    let mut case = args.shard;
    while case < n_t {
        crate::rng::reset_case_fp();
        let vs = one_transport_case(case, args.seed, sh);
        sh.evaluations += 1;
        // distinct by content: fingerprint of every generated value (device, operations, arguments)
        let mut h = Hash64::new();
        h.u64(crate::rng::take_case_fp());
        h.u64(1);
        sh.nontrivial.insert(h.finish());
        if sh.want_sample() && case < 64 {
            sh.sample(J::obj().with("kind", J::s("transport_operations")).with("case", J::u(case)).with("operations", J::u(60)));
        }
        for (rule, d) in vs {
            sh.violation(Violation { prop: "C10".into(), signature: format!("C10/{}", rule), detail: format!("{} [case {}]", d, case), replay: J::obj().with("kind", J::s("transport")).with("case", J::u(case)).with("build", J::s(args.build.clone())) });
        }
        if sh.violations.len() >= 5 {
            return;
        }
        case += args.nshards;
    }
    let mut case = args.shard;
    while case < n_p {
        crate::rng::reset_case_fp();
        let vs = one_probe_case(case, args.seed, sh);
        sh.evaluations += 1;
        let mut h = Hash64::new();
        h.u64(crate::rng::take_case_fp());
        h.u64(2);
        sh.nontrivial.insert(h.finish());
        for (rule, d) in vs {
            sh.violation(Violation { prop: "C10".into(), signature: format!("C10/{}", rule), detail: d, replay: J::obj().with("kind", J::s("probe")).with("case", J::u(case)).with("build", J::s(args.build.clone())) });
        }
        if sh.violations.len() >= 5 {
            return;
        }
        case += args.nshards;
    }
}
