//! C11 — the PCI transport only uses capability windows that lie inside memory BARs, and afterwards
//! touches only those windows at the offsets of the standard common-configuration layout.
use super::Args;
use crate::json::J;
use crate::mem::{self, HalMode, LedgerHal, MMIO_VOFF};
use crate::mmio_bus::{self, Access};
use crate::report::{Shard, Violation};
use crate::rng::{Hash64, Rng};
use crate::xport_model::ModelState;
use crate::xport_pci::{BarKind, CamWindow, CommonWin, DevCfgWin, IsrWin, ModelCam, NotifyWin, PciFn, PciVirtio, Win, map_window, virtio_cap};
use std::cell::RefCell;
use std::panic::{AssertUnwindSafe, catch_unwind};
use std::rc::Rc;
use virtio_drivers::transport::pci::PciTransport;
use virtio_drivers::transport::pci::bus::{Cam, DeviceFunction, MmioCam, PciRoot};
use virtio_drivers::transport::{DeviceStatus, DeviceType, SomeTransport, Transport};

type V = Vec<(String, String)>;

#[derive(Clone, Debug)]
pub struct CapDef {
    pub off: u8,
    pub id: u8,
    pub cap_len: u8,
    pub cfg_type: u8,
    pub bar: u8,
    pub offset: u32,
    pub length: u32,
    pub mult: u32,
}

#[derive(Clone, Debug)]
pub struct Space {
    pub df: DeviceFunction,
    pub vendor_device: u32,
    pub kinds: [BarKind; 6],
    pub addrs: [u64; 6],
    pub caps: Vec<CapDef>, // in list order
    pub has_list: bool,
    pub canonical: bool,
    pub command: u16,
}

fn bar_mem(kinds: &[BarKind; 6], addrs: &[u64; 6], i: usize) -> Option<(u64, u128)> {
    match kinds[i] {
        BarKind::Mem32 { size, .. } => Some((addrs[i] & 0xffff_ffff & !(size as u64 - 1), size as u128)),
        BarKind::Mem64 { size, .. } if i < 5 => Some((addrs[i] & !(size - 1), size as u128)),
        _ => None,
    }
}

fn hostile_u32(rng: &mut Rng, bar_size: u64) -> u32 {
    let bs = bar_size.min(0xffff_ffff) as u32;
    match rng.below(12) {
        0 => 0,
        1 => rng.below(64) as u32,
        2 => bs.wrapping_sub(1),
        3 => bs,
        4 => bs.wrapping_add(1),
        5 => 1 << 31,
        6 => 0xffff_ffff,
        7 => 0xffff_f000,
        8 => bs / 2,
        9 => (rng.next() as u32) & 0xffff,
        10 => 0x1000 * rng.below(8) as u32,
        _ => rng.next() as u32,
    }
}

pub fn gen_space(rng: &mut Rng, canonical: bool) -> Space {
    let df = DeviceFunction { bus: rng.next() as u8, device: rng.below(32) as u8, function: rng.below(8) as u8 };
    let dtype = *rng.pick(&[1u32, 2, 3, 4, 9, 16, 18, 19, 25]);
    let mut vendor_device = (0x1040 + dtype) << 16 | 0x1af4;
    let mut kinds = [BarKind::Unimplemented; 6];
    let mut addrs = [0u64; 6];
    let mut caps = vec![];
    // capability structures are 24 bytes apart so that they never overlap; one "tail" slot may sit so
    // close to the end of configuration space that a 16/20-byte structure does not fit any more
    let mut free_offs: Vec<u8> = vec![0x40, 0x58, 0x70, 0x88, 0xa0, 0xb8, 0xd0];
    let tail = if canonical { 0xe8 } else { *rng.pick(&[0xe8u8, 0xe8, 0xec, 0xf0, 0xf4, 0xf8, 0xfc]) };
    free_offs.push(tail);
    rng.shuffle(&mut free_offs);
    let mut next_off = |_rng: &mut Rng| -> u8 { free_offs.pop().expect("at most 8 capabilities") };
    if canonical {
        let b = rng.below(5) as usize;
        let sixty_four = rng.bool();
        let size = 1u64 << rng.range(14, 24);
        kinds[b] = if sixty_four { BarKind::Mem64 { size, prefetch: true } } else { BarKind::Mem32 { size: size as u32, prefetch: false, below_1m: false } };
        addrs[b] = if sixty_four { (0x8_0000_0000u64 + (rng.below(1 << 20) << 24)) & !(size - 1) } else { (0x1000_0000 + (rng.below(1 << 6) << 24)) & !(size - 1) };
        if sixty_four {
            kinds[b + 1] = BarKind::Upper;
        }
        // an unrelated I/O BAR as QEMU has for transitional devices
        let io = (b + 2) % 6;
        if kinds[io] == BarKind::Unimplemented && (io == 0 || kinds[io - 1] != BarKind::Mem64 { size, prefetch: true }) {
            kinds[io] = BarKind::Io { size: 64, decode16: false };
            addrs[io] = 0xc000;
        }
        let mult = *rng.pick(&[0u32, 2, 4, 4, 4, 8]);
        let mut order = vec![1u8, 3, 4, 2, 5];
        if rng.bool() {
            rng.shuffle(&mut order);
        }
        for t in order {
            let (offset, length, cap_len) = match t {
                1 => (0, 0x1000, 16),
                3 => (0x1000, 0x1000, 16),
                4 => (0x2000, 0x1000, 16),
                2 => (0x3000, 0x1000, 20),
                _ => (0, 0, 20),
            };
            caps.push(CapDef { off: next_off(rng), id: 9, cap_len, cfg_type: t, bar: b as u8, offset, length, mult });
        }
        if rng.bool() {
            caps.insert(rng.below(caps.len() as u64 + 1) as usize, CapDef { off: next_off(rng), id: 0x11, cap_len: 0, cfg_type: 0, bar: 0, offset: 0, length: 0, mult: 0 });
        }
        return Space { df, vendor_device, kinds, addrs, caps, has_list: true, canonical: true, command: 0x0007 };
    }
    // hostile
    let mut i = 0;
    while i < 6 {
        let k = match rng.below(9) {
            0 => BarKind::Unimplemented,
            1 | 2 | 3 => BarKind::Mem32 { size: 1u32 << rng.range(4, 31), prefetch: rng.bool(), below_1m: false },
            4 | 5 | 6 => BarKind::Mem64 { size: 1u64 << rng.range(4, 63), prefetch: rng.bool() },
            7 => BarKind::Io { size: 1u32 << rng.range(2, 8), decode16: false },
            _ => BarKind::Mem32 { size: 0x4000, prefetch: false, below_1m: false },
        };
        let size = match k {
            BarKind::Mem32 { size, .. } | BarKind::Io { size, .. } => size as u64,
            BarKind::Mem64 { size, .. } => size,
            _ => 1,
        };
        let a = if rng.chance(1, 7) {
            0
        } else {
            match k {
                BarKind::Mem64 { .. } => (rng.next() >> rng.below(30)) & !(size - 1),
                _ => (rng.next() & 0xffff_ffff) & !(size - 1),
            }
        };
        kinds[i] = k;
        addrs[i] = a;
        if let BarKind::Mem64 { .. } = k {
            if i < 5 {
                kinds[i + 1] = BarKind::Upper;
            }
            i += 2;
        } else {
            i += 1;
        }
    }
    let n = rng.below(9) as usize;
    for _ in 0..n {
        let foreign = rng.chance(1, 6);
        let bar = match rng.below(20) {
            0 => 6,
            1 => 7 + rng.below(249) as u8,
            _ => rng.below(6) as u8,
        };
        let bsz = if bar < 6 { bar_mem(&kinds, &addrs, bar as usize).map(|x| x.1.min(u64::MAX as u128) as u64).unwrap_or(0x1000) } else { 0x1000 };
        let cfg_type = match rng.below(12) {
            0 => 0,
            1 => 5,
            2 => 6 + rng.below(250) as u8,
            x => 1 + (x % 4) as u8,
        };
        let (mut offset, mut length) = (hostile_u32(rng, bsz), hostile_u32(rng, bsz));
        if rng.chance(1, 3) {
            // plausible window
            offset = (rng.below(4) as u32) * 0x1000;
            length = *rng.pick(&[0x1000u32, 56, 64, 4, 2, 1, 0x38, 0x37, 10]);
        }
        if rng.chance(1, 10) {
            // pair summing to >= 2^32
            offset = 0xffff_f000;
            length = 0x2000;
        }
        caps.push(CapDef {
            off: next_off(rng),
            id: if foreign { *rng.pick(&[0x01u8, 0x05, 0x10, 0x11]) } else { 9 },
            cap_len: *rng.pick(&[0u8, 15, 16, 16, 19, 20, 20, 24]),
            cfg_type,
            bar,
            offset,
            length,
            mult: *rng.pick(&[0u32, 2, 4, 4, 6, 3, 1, 1 << 31, 0x1000]),
        });
    }
    if rng.chance(1, 30) {
        vendor_device = if rng.bool() { (0x1040 + dtype) << 16 | 0x8086 } else { 0x0fff_1af4 | (rng.below(0x40) as u32) << 16 };
    }
    Space { df, vendor_device, kinds, addrs, caps, has_list: !rng.chance(1, 12), canonical: false, command: rng.next() as u16 & 0x0407 }
}

/// A canonical layout with 1..3 hostile mutations (keeps most of the structure valid, so that the
/// "first sufficiently long capability" and containment rules are exercised on spaces that often construct).
pub fn gen_perturbed(rng: &mut Rng) -> Space {
    let mut s = gen_space(rng, true);
    s.canonical = false;
    let used: Vec<u8> = s.caps.iter().map(|c| c.off).collect();
    let mut spare: Vec<u8> = [0x40u8, 0x58, 0x70, 0x88, 0xa0, 0xb8, 0xd0, 0xe8].into_iter().filter(|o| !used.contains(o)).collect();
    let b = s.caps.iter().find(|c| c.id == 9).map(|c| c.bar).unwrap_or(0);
    let bsz = bar_mem(&s.kinds, &s.addrs, b as usize).map(|x| x.1 as u64).unwrap_or(0x4000);
    for _ in 0..rng.range(1, 3) {
        let n = s.caps.len();
        match rng.below(9) {
            0 | 1 => {
                // duplicate of some type, placed anywhere in the list, with another window
                if let Some(off) = spare.pop() {
                    let t = 1 + rng.below(4) as u8;
                    let valid = rng.bool();
                    let (offset, length) = if valid { ((rng.below(3) as u32) * 0x1000, 0x1000) } else { (hostile_u32(rng, bsz), hostile_u32(rng, bsz)) };
                    let c = CapDef { off, id: 9, cap_len: *rng.pick(&[15u8, 16, 19, 20, 24]), cfg_type: t, bar: b, offset, length, mult: *rng.pick(&[2u32, 4, 6, 3]) };
                    s.caps.insert(rng.below(n as u64 + 1) as usize, c);
                }
            }
            2 => {
                let i = rng.below(n as u64) as usize;
                s.caps[i].offset = hostile_u32(rng, bsz);
            }
            3 => {
                let i = rng.below(n as u64) as usize;
                s.caps[i].length = hostile_u32(rng, bsz);
            }
            4 => {
                let i = rng.below(n as u64) as usize;
                s.caps[i].bar = rng.below(8) as u8;
            }
            5 => {
                let i = rng.below(n as u64) as usize;
                s.caps[i].cap_len = *rng.pick(&[0u8, 15, 16, 19, 20, 24]);
            }
            6 => {
                for c in s.caps.iter_mut() {
                    if c.cfg_type == 2 {
                        c.mult = *rng.pick(&[0u32, 1, 3, 6, 1 << 31, 0x1000]);
                    }
                }
            }
            7 => s.addrs[b as usize] = 0,
            _ => {
                if rng.bool() {
                    s.kinds[b as usize] = BarKind::Io { size: 256, decode16: false };
                    if (b as usize) < 5 && s.kinds[b as usize + 1] == BarKind::Upper {
                        s.kinds[b as usize + 1] = BarKind::Unimplemented;
                    }
                } else {
                    s.has_list = false;
                }
            }
        }
    }
    s
}

pub fn build_fn(s: &Space) -> PciFn {
    let mut f = PciFn::new(s.df);
    f.log_on = false;
    f.regs[0] = s.vendor_device;
    for i in 0..6 {
        if s.kinds[i] != BarKind::Upper {
            f.set_bar(i, s.kinds[i], s.addrs[i]);
        }
    }
    f.set_command(s.command);
    f.set_status(if s.has_list { 0x0010 } else { 0 });
    f.snapshot();
    if let Some(c0) = s.caps.first() {
        f.regs[0x34 / 4] = c0.off as u32;
    }
    for (k, c) in s.caps.iter().enumerate() {
        let next = s.caps.get(k + 1).map(|n| n.off).unwrap_or(0);
        if c.id == 9 {
            let b = virtio_cap(next, c.cap_len, c.cfg_type, c.bar, c.offset, c.length, Some(c.mult));
            f.write_bytes(c.off as usize, &b);
        } else {
            f.write_bytes(c.off as usize, &[c.id, next, 0x12, 0x34]);
        }
    }
    f
}

#[derive(Clone, Debug, PartialEq)]
pub enum Expect {
    /// Construction must not succeed.
    MustFail(String),
    /// If it succeeds the windows must be exactly these: common, notify, isr, device (physical address, length).
    Windows { w: [(u64, u32); 3], dev: Option<(u64, u32)>, mult: u32, raw: [Win; 3], raw_dev: Option<Win> },
    /// Malformed in a way the reference does not rule on (capability structure crossing the end of
    /// configuration space): only "no panic" and soundness of whatever is chosen are required.
    Unruled,
}

pub fn reference(s: &Space) -> Expect {
    if s.vendor_device & 0xffff != 0x1af4 {
        return Expect::MustFail("vendor id".into());
    }
    let did = (s.vendor_device >> 16) as u16;
    let known = matches!(did, 0x1000..=0x1005 | 0x1009) || (did >= 0x1040 && matches!(did - 0x1040, 1..=13 | 16..=25));
    if !known {
        return Expect::MustFail("device id".into());
    }
    let mut chosen: [Option<CapDef>; 4] = [None, None, None, None];
    if s.has_list {
        for c in &s.caps {
            if c.id != 9 || c.cap_len < 16 {
                continue;
            }
            // structures that do not fit into the 256-byte configuration space, or that name a
            // reserved BAR, are ignored (VirtIO 1.2 §4.1.4: "MUST ignore ... reserved bar value")
            if c.off as u32 + c.cap_len as u32 > 256 || c.bar >= 6 {
                continue;
            }
            match c.cfg_type {
                1 if chosen[0].is_none() => chosen[0] = Some(c.clone()),
                2 if c.cap_len >= 20 && chosen[1].is_none() => chosen[1] = Some(c.clone()),
                3 if chosen[2].is_none() => chosen[2] = Some(c.clone()),
                4 if chosen[3].is_none() => chosen[3] = Some(c.clone()),
                _ => {}
            }
        }
    }
    let names = ["common", "notify", "isr", "device"];
    for i in 0..3 {
        if chosen[i].is_none() {
            return Expect::MustFail(format!("no {} capability", names[i]));
        }
    }
    let mult = chosen[1].as_ref().unwrap().mult;
    if mult % 2 != 0 {
        return Expect::MustFail("odd notify_off_multiplier".into());
    }
    let min_len = [56u32, 2, 1, 4];
    let align = [8u64, 2, 1, 4];
    let mut w = [(0u64, 0u32); 4];
    for i in 0..4 {
        let Some(c) = &chosen[i] else { continue };
        if c.bar >= 6 {
            return Expect::MustFail(format!("{} capability names BAR {}", names[i], c.bar));
        }
        let Some((addr, size)) = bar_mem(&s.kinds, &s.addrs, c.bar as usize) else {
            return Expect::MustFail(format!("{} capability in a BAR that is not a memory BAR", names[i]));
        };
        if addr == 0 {
            return Expect::MustFail(format!("{} capability in an unallocated BAR", names[i]));
        }
        if c.offset as u128 + c.length as u128 > size {
            return Expect::MustFail(format!("{} window [{:#x},+{:#x}) exceeds its {:#x}-byte BAR", names[i], c.offset, c.length, size));
        }
        if c.length < min_len[i] {
            return Expect::MustFail(format!("{} window of {} bytes is too small", names[i], c.length));
        }
        let pa = addr + c.offset as u64;
        if pa % align[i] != 0 {
            return Expect::MustFail(format!("{} window at {:#x} is misaligned", names[i], pa));
        }
        w[i] = (pa, c.length);
    }
    let raw = |i: usize| {
        let c = chosen[i].as_ref().unwrap();
        Win { bar: c.bar, offset: c.offset, length: c.length }
    };
    Expect::Windows { w: [w[0], w[1], w[2]], dev: chosen[3].as_ref().map(|_| w[3]), mult, raw: [raw(0), raw(1), raw(2)], raw_dev: chosen[3].as_ref().map(|_| raw(3)) }
}

struct Ops {
    pv: Rc<RefCell<PciVirtio>>,
    viol: V,
    ops: u64,
    accesses: u64,
    common_va: u64,
}
impl Ops {
    fn v(&mut self, rule: &str, d: String) {
        if self.viol.len() < 12 {
            self.viol.push((rule.into(), d));
        }
    }
    fn op<R>(&mut self, name: &str, f: impl FnOnce() -> R) -> Option<(R, Vec<Access>)> {
        self.pv.borrow_mut().begin_op();
        mmio_bus::trace(true);
        let r = catch_unwind(AssertUnwindSafe(f));
        let tr = mmio_bus::take_trace();
        mmio_bus::trace(false);
        self.ops += 1;
        self.accesses += tr.len() as u64;
        for a in mmio_bus::take_unmapped() {
            self.v("access_outside_windows", format!("{}: {:x?}", name, a));
        }
        let dv = self.pv.borrow_mut().take_viol();
        for (rule, d) in dv {
            self.v(rule, format!("{}: {}", name, d));
        }
        match r {
            Err(_) => {
                self.v("panic_in_transport_op", format!("{} panicked", name));
                None
            }
            Ok(r) => Some((r, tr)),
        }
    }
    fn first_is_select(&mut self, name: &str, tr: &[Access], q: u16) {
        match tr.first() {
            Some(a) if a.write && a.addr == self.common_va + 0x16 && a.width == 2 && a.value == q as u64 => {}
            other => self.v("queue_not_selected_first", format!("{}: first access {:x?}, expected a 16-bit write of {} to queue_select", name, other, q)),
        }
    }
}

fn exercise<T: Transport>(t: &mut T, o: &mut Ops, rng: &mut Rng, rounds: usize, sh: &mut Shard) {
    let st = o.pv.borrow().st.clone();
    for _ in 0..rounds {
        if !o.viol.is_empty() {
            return;
        }
        match rng.below(10) {
            0 => {
                let q = rng.below(8) as u16;
                let m = *rng.pick(&[0u32, 1, 16, 256, 32768, 65535]);
                if st.borrow().queues.contains_key(&q) {
                    continue;
                }
                st.borrow_mut().max_queue.insert(q, m);
                o.pv.borrow_mut().q.remove(&q);
                if let Some((r, tr)) = o.op("max_queue_size", || t.max_queue_size(q)) {
                    o.first_is_select("max_queue_size", &tr, q);
                    if r != m {
                        o.v("wrong_result", format!("max_queue_size({}) = {}, device reports {}", q, r, m));
                    }
                    sh.inc("op_max_queue_size", 1);
                }
            }
            1 => {
                let q = rng.below(8) as u16;
                // queue_notify_off such that off*multiplier stays inside the notify window
                let (mult, len) = {
                    let p = o.pv.borrow();
                    (p.notify_multiplier as u64, p.notify_len)
                };
                let max_off = if mult == 0 { 0xffff } else { ((len.saturating_sub(2)) / mult).min(0xffff) };
                let off = rng.below(max_off + 1) as u16;
                {
                    let mut p = o.pv.borrow_mut();
                    let mut e = p.q.get(&q).copied().unwrap_or_default();
                    e.notify_off = off;
                    if e.size == 0 {
                        e.size = 256;
                    }
                    p.q.insert(q, e);
                }
                if let Some((_, tr)) = o.op("notify", || t.notify(q)) {
                    let n = o.pv.borrow().notifications.len();
                    if n != 1 {
                        o.v("notify_count", format!("notify({}) performed {} writes in the notify window ({:x?})", q, n, tr));
                    }
                    sh.inc("op_notify", 1);
                }
                o.pv.borrow_mut().notifications.clear();
                st.borrow_mut().take_notifications();
            }
            2 => {
                let s = (rng.next() as u32 & 0xff) | 1;
                if let Some((_, tr)) = o.op("set_status", || t.set_status(DeviceStatus::from_bits_retain(s))) {
                    if tr.len() != 1 || !tr[0].write || tr[0].addr != o.common_va + 0x14 || tr[0].width != 1 || tr[0].value != s as u64 {
                        o.v("register_write_missing_or_wrong", format!("set_status({:#x}): {:x?}", s, tr));
                    }
                    sh.inc("op_set_status", 1);
                }
                if let Some((r, tr)) = o.op("get_status", || t.get_status()) {
                    if r.bits() != s & 0xcf || tr.len() != 1 || tr[0].write || tr[0].width != 1 {
                        // from_bits_truncate drops undefined bits (0x10, 0x20)
                        o.v("wrong_result", format!("get_status() = {:#x} after set_status({:#x}) via {:x?}", r.bits(), s, tr));
                    }
                    sh.inc("op_get_status", 1);
                }
            }
            3 => {
                let f = if rng.bool() { rng.next() } else { 1 << 31 | 1 << 32 | rng.next() };
                st.borrow_mut().offered = f;
                if let Some((r, _)) = o.op("read_device_features", || t.read_device_features()) {
                    if r != f {
                        o.v("wrong_result", format!("read_device_features() = {:#x}, device offers {:#x}", r, f));
                    }
                    sh.inc("op_read_device_features", 1);
                }
            }
            4 => {
                let f = rng.next();
                if let Some((_, _)) = o.op("write_driver_features", || t.write_driver_features(f)) {
                    let got = o.pv.borrow().drv_feat;
                    if got != f {
                        o.v("wrong_register_value", format!("write_driver_features({:#x}) left {:#x}", f, got));
                    }
                    sh.inc("op_write_driver_features", 1);
                }
            }
            5 | 6 => {
                let q = rng.below(8) as u16;
                if st.borrow().queues.contains_key(&q) {
                    continue; // PCI queues cannot be reprogrammed once enabled
                }
                let size = 1u32 << rng.below(16);
                let (d, a, u) = (rng.next() & !15, rng.next() & !1, rng.next() & !3);
                if let Some((_, tr)) = o.op("queue_set", || t.queue_set(q, size, d, a, u)) {
                    o.first_is_select("queue_set", &tr, q);
                    match tr.last() {
                        Some(x) if x.write && x.addr == o.common_va + 0x1c && x.value == 1 => {}
                        other => o.v("queue_enabled_before_parameters", format!("queue_set: last access {:x?}, expected queue_enable=1", other)),
                    }
                    let reg = st.borrow().queues.get(&q).copied();
                    match reg {
                        Some(r) if r.size == size && r.desc == d && r.driver == a && r.device == u => {}
                        other => o.v("wrong_register_value", format!("queue_set({}, {}, {:#x}, {:#x}, {:#x}) registered {:x?}", q, size, d, a, u, other)),
                    }
                    sh.inc("op_queue_set", 1);
                }
                if let Some((r, tr)) = o.op("queue_used", || t.queue_used(q)) {
                    o.first_is_select("queue_used", &tr, q);
                    if !r {
                        o.v("wrong_result", format!("queue_used({}) = false after queue_set", q));
                    }
                    sh.inc("op_queue_used", 1);
                }
            }
            7 => {
                let isr = rng.below(4) as u32;
                st.borrow_mut().isr = isr;
                if let Some((r, tr)) = o.op("ack_interrupt", || t.ack_interrupt()) {
                    if r.bits() != isr || tr.len() != 1 || tr[0].write {
                        o.v("wrong_result", format!("ack_interrupt() = {:#x} with ISR {:#x} via {:x?}", r.bits(), isr, tr));
                    }
                    sh.inc("op_ack_interrupt", 1);
                }
            }
            8 => {
                let g = rng.next() as u32 & 0xff;
                st.borrow_mut().config_gen = g;
                if let Some((r, tr)) = o.op("read_config_generation", || t.read_config_generation()) {
                    if r != g || tr.len() != 1 || tr[0].addr != o.common_va + 0x15 || tr[0].width != 1 {
                        o.v("wrong_result", format!("read_config_generation() = {} (device {}) via {:x?}", r, g, tr));
                    }
                    sh.inc("op_read_config_generation", 1);
                }
            }
            _ => {
                let q = rng.below(8) as u16;
                let want = st.borrow().queues.contains_key(&q);
                if let Some((r, tr)) = o.op("queue_used", || t.queue_used(q)) {
                    o.first_is_select("queue_used", &tr, q);
                    if r != want {
                        o.v("wrong_result", format!("queue_used({}) = {}, device says {}", q, r, want));
                    }
                    sh.inc("op_queue_used", 1);
                }
            }
        }
    }
}

pub fn one_case(case: u64, seed: u64, sh: &mut Shard) -> V {
    let mut rng = Rng::derive(seed, 0xC11, case, 0);
    let mut out: V = vec![];
    mmio_bus::reset();
    mem::reset(HalMode::Bounce);
    let mode = rng.below(4);
    let canonical = mode == 0;
    let s = if mode == 1 || mode == 2 { gen_perturbed(&mut rng) } else { gen_space(&mut rng, canonical) };
    sh.inc(match mode { 0 => "spaces_canonical", 1 | 2 => "spaces_perturbed_canonical", _ => "spaces_hostile" }, 1);
    let expect = reference(&s);
    let frc = Rc::new(RefCell::new(build_fn(&s)));
    let via_mmiocam = rng.chance(1, 5);
    let r = if via_mmiocam {
        let ecam = rng.bool();
        let cam = if ecam { Cam::Ecam } else { Cam::MmioCam };
        let win = Rc::new(RefCell::new(CamWindow { f: frc.clone(), ecam, viol: vec![] }));
        let base = 0x0000_5000_0000_0000u64;
        mmio_bus::map(base, cam.size() as u64, win);
        // SAFETY: the address is only ever interpreted by the MMIO bus backend.
        let mc = unsafe { MmioCam::new(base as usize as *mut u8, cam) };
        let mut root = PciRoot::new(mc);
        sh.inc("constructions_via_mmiocam", 1);
        let r = catch_unwind(AssertUnwindSafe(|| PciTransport::new::<LedgerHal, _>(&mut root, s.df)));
        // the configuration window is only needed during construction; left mapped it can shadow a
        // generated 64-bit BAR that happens to land on the same fabricated address (seen once in
        // 4.5e8 cases: ISR reads answered by the CAM model)
        mmio_bus::unmap(base);
        r
    } else {
        let mut root = PciRoot::new(ModelCam { f: frc.clone() });
        catch_unwind(AssertUnwindSafe(|| PciTransport::new::<LedgerHal, _>(&mut root, s.df)))
    };
    let p2v = mem::with(|l| std::mem::take(&mut l.p2v_requests));
    let desc = || format!("caps={:x?} bars={:?} addrs={:x?} list={} vd={:#x}", s.caps, s.kinds, s.addrs, s.has_list, s.vendor_device);
    // every mmio_phys_to_virt request must lie inside a memory BAR of this function
    for (pa, sz) in &p2v {
        let inside = (0..6).any(|i| bar_mem(&s.kinds, &s.addrs, i).is_some_and(|(a, size)| a != 0 && *pa as u128 >= a as u128 && *pa as u128 + *sz as u128 <= a as u128 + size));
        if !inside {
            out.push(("phys_to_virt_outside_bar".into(), format!("mmio_phys_to_virt({:#x}, {:#x}) is not inside any allocated memory BAR [{}]", pa, sz, desc())));
        }
    }
    let t = match r {
        Err(_) => {
            out.push(("panic_in_construction".into(), format!("PciTransport::new panicked (reference: {:?}) [{}]", expect, desc())));
            return out;
        }
        Ok(Err(e)) => {
            sh.inc("constructions_refused", 1);
            if let (Expect::Windows { .. }, true) = (&expect, s.canonical) {
                out.push(("valid_layout_rejected".into(), format!("canonical layout rejected with {:?} [{}]", e, desc())));
            } else if let Expect::Windows { .. } = &expect {
                sh.inc("noncanonical_valid_rejected", 1);
            }
            return out;
        }
        Ok(Ok(t)) => t,
    };
    sh.inc("constructions_ok", 1);
    let (w, dev, mult, raw, raw_dev) = match &expect {
        Expect::MustFail(why) => {
            out.push(("invalid_layout_accepted".into(), format!("construction succeeded although {} [{}] (platform was asked to map {:x?})", why, desc(), p2v)));
            drop_quiet(t);
            return out;
        }
        Expect::Unruled => {
            sh.inc("unruled_accepted", 1);
            drop_quiet(t);
            return out;
        }
        Expect::Windows { w, dev, mult, raw, raw_dev } => (*w, *dev, *mult, *raw, *raw_dev),
    };
    let mut want: Vec<(u64, usize)> = w.iter().map(|x| (x.0, x.1 as usize)).collect();
    if let Some(d) = dev {
        want.push((d.0, d.1 as usize));
    }
    if p2v != want {
        out.push(("wrong_windows_chosen".into(), format!("platform was asked to map {:x?}, reference windows (common, notify, isr, device) are {:x?} [{}]", p2v, want, desc())));
        drop_quiet(t);
        return out;
    }
    // ---- later operations: map the four windows and check every access
    let st = ModelState::new(DeviceType::Block, rng.next());
    let cfg_len = dev.map(|d| d.1 as usize).unwrap_or(0).min(4096);
    st.borrow_mut().config = (0..cfg_len).map(|i| (i * 7 + 3) as u8).collect();
    let mut pvd = PciVirtio::new(&st);
    pvd.notify_multiplier = mult;
    pvd.notify_len = w[1].1 as u64;
    pvd.per_op_sel_rule = true;
    pvd.reset_lag = rng.below(6) as u32;
    let pv = Rc::new(RefCell::new(pvd));
    let bar_addr = |i: usize| bar_mem(&s.kinds, &s.addrs, raw[i].bar as usize).unwrap().0;
    // windows may overlap in hostile layouts; the bus resolves the first match, which is fine for
    // soundness purposes only when they are disjoint — skip the operation phase otherwise
    let mut ranges: Vec<(u64, u64)> = want.iter().map(|x| (x.0, x.1 as u64)).collect();
    ranges.sort();
    let disjoint = ranges.windows(2).all(|p| p[0].0 + p[0].1 <= p[1].0);
    if !disjoint {
        sh.inc("overlapping_windows_skipped_ops", 1);
        drop_quiet(t);
        return out;
    }
    let common_va = map_window(bar_addr(0), raw[0], Rc::new(RefCell::new(CommonWin(pv.clone()))));
    map_window(bar_addr(1), raw[1], Rc::new(RefCell::new(NotifyWin(pv.clone()))));
    map_window(bar_addr(2), raw[2], Rc::new(RefCell::new(IsrWin(pv.clone()))));
    if let Some(rd) = raw_dev {
        let a = bar_mem(&s.kinds, &s.addrs, rd.bar as usize).unwrap().0;
        map_window(a, rd, Rc::new(RefCell::new(DevCfgWin(pv.clone()))));
    }
    debug_assert_eq!(common_va, w[0].0.wrapping_add(MMIO_VOFF));
    let mut o = Ops { pv: pv.clone(), viol: vec![], ops: 0, accesses: 0, common_va };
    let via_some = rng.bool();
    let lag = pv.borrow().reset_lag;
    let check_drop = |o: &mut Ops, tr: Vec<Access>| {
        // reset write, then status polled until it reads 0
        let wpos = tr.iter().position(|a| a.write && a.addr == common_va + 0x14 && a.value == 0);
        match wpos {
            None => o.v("no_reset_on_drop", format!("no device_status=0 write when the transport was dropped: {:x?}", tr)),
            Some(p) => {
                let reads: Vec<&Access> = tr[p + 1..].iter().filter(|a| !a.write && a.addr == common_va + 0x14).collect();
                if reads.is_empty() || reads.last().unwrap().value != 0 || reads.len() as u32 != lag + 1 {
                    o.v("reset_not_awaited", format!("after the reset write the status was read {} times (device needed {} reads to report 0): {:x?}", reads.len(), lag + 1, tr));
                }
            }
        }
    };
    if via_some {
        let mut stp: SomeTransport = t.into();
        exercise(&mut stp, &mut o, &mut rng, 40, sh);
        if let Some((_, tr)) = o.op("drop", move || drop(stp)) {
            check_drop(&mut o, tr);
        }
        sh.inc("cases_via_some_transport", 1);
    } else {
        let mut t = t;
        exercise(&mut t, &mut o, &mut rng, 40, sh);
        if let Some((_, tr)) = o.op("drop", move || drop(t)) {
            check_drop(&mut o, tr);
        }
    }
    sh.inc("drops_checked", 1);
    sh.inc("transport_operations_checked", o.ops);
    sh.inc("register_accesses_checked", o.accesses);
    for (r, d) in o.viol {
        out.push((r, format!("{} [{}]", d, desc())));
    }
    mmio_bus::reset();
    out
}

fn drop_quiet(t: PciTransport) {
    // dropping polls device_status until it reads 0; unmapped reads return all-ones, so give it a window
    // that answers 0: simply forget the transport (it owns no resources).
    std::mem::forget(t);
}

pub fn run(args: &Args, sh: &mut Shard) {
    if args.is_miri() {
        sh.inconclusive.push("C11 uses fabricated MMIO addresses; not run under Miri".into());
        return;
    }
    if let Some(r) = &args.replay {
        let case = r.get("case").and_then(|x| x.as_u64()).unwrap_or(0);
        let vs = one_case(case, args.seed, sh);
        println!("REPLAY case {}: {:#?}", case, vs);
        for (rule, d) in vs {
            sh.violation(Violation { prop: "C11".into(), signature: format!("C11/{}", rule), detail: d, replay: J::obj().with("case", J::u(case)) });
        }
        sh.evaluations = 1;
        return;
    }
    let n = args.scaled(if args.thorough() { 6_000_000 } else { 400_000 });
    let mut case = args.shard;
    while case < n {
        crate::rng::reset_case_fp();
        let vs = one_case(case, args.seed, sh);
        sh.evaluations += 1;
        // distinct by content: fingerprint of every generated value (configuration space + operations)
        let mut h = Hash64::new();
        h.u64(crate::rng::take_case_fp());
        sh.nontrivial.insert(h.finish());
        if sh.want_sample() && case < 48 {
            let mut rng = Rng::derive(args.seed, 0xC11, case, 0);
            let mode = rng.below(4);
            let s = if mode == 1 || mode == 2 { gen_perturbed(&mut rng) } else { gen_space(&mut rng, mode == 0) };
            sh.sample(J::obj().with("case", J::u(case)).with("capabilities", J::s(format!("{:x?}", s.caps))).with("bars", J::s(format!("{:?}", s.kinds))).with("reference_verdict", J::s(format!("{:x?}", reference(&s)))));
        }
        for (rule, d) in vs {
            sh.violation(Violation { prop: "C11".into(), signature: format!("C11/{}", rule), detail: d, replay: J::obj().with("case", J::u(case)).with("build", J::s(args.build.clone())) });
        }
        if sh.violations.len() >= 12 {
            return;
        }
        case += args.nshards;
    }
}
