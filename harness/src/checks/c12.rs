//! C12 — PCI bus helpers: BAR sizing without side effects, unique configuration addresses,
//! bus enumeration, capability walking.  Reference PCI function model in xport_pci.rs.
use super::Args;
use crate::json::J;
use crate::mmio_bus;
use crate::report::{Shard, Violation};
use crate::rng::{Hash64, Rng};
use crate::xport_pci::{BarKind, CamWindow, ModelCam, PciFn};
use std::cell::RefCell;
use std::panic::{AssertUnwindSafe, catch_unwind};
use std::rc::Rc;
use virtio_drivers::transport::pci::bus::{BarInfo, Cam, ConfigurationAccess, DeviceFunction, HeaderType, MemoryBarType, MmioCam, PciError, PciRoot};

type V = Vec<(String, String)>;

fn pow2(rng: &mut Rng, lo: u32, hi: u32) -> u64 {
    1u64 << rng.range(lo as u64, hi as u64)
}

#[derive(Clone, Debug)]
struct BarCase {
    kinds: [BarKind; 6],
    addrs: [u64; 6],
    command: u16,
    cmd_rw: u16,
}

fn gen_bars(rng: &mut Rng, case: u64) -> BarCase {
    let mut kinds = [BarKind::Unimplemented; 6];
    let mut addrs = [0u64; 6];
    let mut i = 0;
    while i < 6 {
        let k = match rng.below(10) {
            0 | 1 => BarKind::Unimplemented,
            2 | 3 | 4 => BarKind::Mem32 { size: pow2(rng, 4, 31) as u32, prefetch: rng.bool(), below_1m: rng.chance(1, 6) },
            5 | 6 | 7 => BarKind::Mem64 { size: pow2(rng, 4, 63), prefetch: rng.bool() },
            8 => {
                let decode16 = rng.chance(1, 3);
                BarKind::Io { size: pow2(rng, 2, if decode16 { 15 } else { 16 }) as u32, decode16 }
            }
            _ => {
                if rng.chance(1, 4) {
                    BarKind::MemReserved { size: pow2(rng, 4, 20) as u32 }
                } else {
                    BarKind::Mem32 { size: pow2(rng, 4, 31) as u32, prefetch: false, below_1m: false }
                }
            }
        };
        // assigned address: aligned to the size, non-zero most of the time
        let size = match k {
            BarKind::Mem32 { size, .. } | BarKind::MemReserved { size } | BarKind::Io { size, .. } => size as u64,
            BarKind::Mem64 { size, .. } => size,
            _ => 1,
        };
        let mut a = if rng.chance(1, 8) { 0 } else { rng.next() & !(size - 1) };
        match k {
            BarKind::Mem32 { below_1m: true, .. } => a &= 0xf_ffff,
            BarKind::Mem32 { .. } | BarKind::MemReserved { .. } => a &= 0xffff_ffff,
            BarKind::Io { decode16, .. } => a &= if decode16 { 0xffff } else { 0xffff_ffff },
            _ => {}
        }
        kinds[i] = k;
        addrs[i] = a;
        if let BarKind::Mem64 { .. } = k {
            if i < 5 {
                kinds[i + 1] = BarKind::Upper;
            }
            i += 2;
        } else {
            i += 1;
        }
    }
    // all 2^10 combinations of the defined command bits 0-6,8-10 are enumerated by case number
    let bits = case & 0x3ff;
    let mut command = (bits & 0x7f) as u16 | (((bits >> 7) & 7) as u16) << 8;
    // some (older, PCI 2.x) functions implement bit 7 (stepping control) as a read/write bit
    let mut cmd_rw = 0x077f;
    if (case >> 10) % 4 == 3 {
        cmd_rw |= 0x80;
        command |= 0x80;
    }
    BarCase { kinds, addrs, command, cmd_rw }
}

fn expected(bc: &BarCase, i: usize, f: &PciFn) -> Result<Option<BarInfo>, PciError> {
    let v = f.orig_bars[i];
    match bc.kinds[i] {
        BarKind::Unimplemented => Ok(None),
        BarKind::Upper => Ok(None), // not queried directly
        BarKind::Mem32 { size, prefetch, below_1m } => Ok(Some(BarInfo::Memory { address_type: if below_1m { MemoryBarType::Below1MiB } else { MemoryBarType::Width32 }, prefetchable: prefetch, address: (v & 0xffff_fff0) as u64, size: size as u64 })),
        BarKind::MemReserved { .. } => Err(PciError::InvalidBarType),
        BarKind::Mem64 { size, prefetch } => {
            if i >= 5 {
                Err(PciError::InvalidBarType)
            } else {
                Ok(Some(BarInfo::Memory { address_type: MemoryBarType::Width64, prefetchable: prefetch, address: (v & 0xffff_fff0) as u64 | (f.orig_bars[i + 1] as u64) << 32, size }))
            }
        }
        BarKind::Io { size, .. } => Ok(Some(BarInfo::IO { address: v & 0xffff_fffc, size })),
    }
}

fn bar_case(case: u64, seed: u64, sh: &mut Shard) -> V {
    let mut rng = Rng::derive(seed, 0xC12, case, 0);
    let mut out: V = vec![];
    let df = DeviceFunction { bus: rng.next() as u8, device: rng.below(32) as u8, function: rng.below(8) as u8 };
    let bc = gen_bars(&mut rng, case);
    let mut f = PciFn::new(df);
    f.cmd_rw = bc.cmd_rw;
    f.regs[0] = 0x1041_1af4;
    for i in 0..6 {
        if bc.kinds[i] != BarKind::Upper {
            f.set_bar(i, bc.kinds[i], bc.addrs[i]);
        }
    }
    f.set_command(bc.command);
    f.set_status(rng.next() as u16 & 0xf9b0);
    f.snapshot();
    let orig_cmd_status = f.regs[1];
    let frc = Rc::new(RefCell::new(f));
    let mut root = PciRoot::new(ModelCam { f: frc.clone() });
    let whole = rng.chance(1, 4);
    let describe = |bc: &BarCase| format!("{:?} addrs={:x?} command={:#06x}", bc.kinds, bc.addrs, bc.command);
    let post = |frc: &Rc<RefCell<PciFn>>, out: &mut V, what: &str, bc: &BarCase| {
        let mut f = frc.borrow_mut();
        for (rule, d) in std::mem::take(&mut f.viol) {
            out.push((rule.to_string(), format!("{}: {} [{}]", what, d, describe(bc))));
        }
        if f.regs[1] != orig_cmd_status {
            out.push(("command_not_restored".into(), format!("{}: command/status register is {:#010x} afterwards, was {:#010x} [{}]", what, f.regs[1], orig_cmd_status, describe(bc))));
            f.regs[1] = orig_cmd_status;
        }
        for i in 0..6 {
            if f.bars[i].value != f.orig_bars[i] {
                out.push(("bar_not_restored".into(), format!("{}: BAR{} is {:#010x} afterwards, was {:#010x} [{}]", what, i, f.bars[i].value, f.orig_bars[i], describe(bc))));
                f.bars[i].value = f.orig_bars[i];
            }
        }
    };
    if whole {
        let r = catch_unwind(AssertUnwindSafe(|| root.bars(df)));
        let mut want: Result<[Option<BarInfo>; 6], PciError> = Ok(Default::default());
        {
            let f = frc.borrow();
            let mut arr: [Option<BarInfo>; 6] = Default::default();
            for i in 0..6 {
                match expected(&bc, i, &f) {
                    Ok(v) => arr[i] = v,
                    Err(e) => {
                        want = Err(e);
                        break;
                    }
                }
            }
            if want.is_ok() {
                want = Ok(arr);
            }
        }
        match r {
            Err(_) => out.push(("panic_in_bars".into(), format!("bars() panicked [{}]", describe(&bc)))),
            Ok(got) => {
                if got != want {
                    let sixteen = bc.kinds.iter().any(|k| matches!(k, BarKind::Io { decode16: true, .. }));
                    out.push((if sixteen { "bars_result_wrong/io16".into() } else { "bars_result_wrong".into() }, format!("bars() = {:?}, reference {:?} [{}]", got, want, describe(&bc))));
                }
            }
        }
        sh.inc("bars_calls_checked", 1);
        post(&frc, &mut out, "bars()", &bc);
    } else {
        for i in 0..6usize {
            if bc.kinds[i] == BarKind::Upper {
                continue;
            }
            let want = expected(&bc, i, &frc.borrow());
            let r = catch_unwind(AssertUnwindSafe(|| root.bar_info(df, i as u8)));
            match r {
                Err(_) => out.push(("panic_in_bar_info".into(), format!("bar_info({}) panicked [{}]", i, describe(&bc)))),
                Ok(got) => {
                    if got != want {
                        let rule = match bc.kinds[i] {
                            BarKind::Io { decode16: true, .. } => "bar_info_result_wrong/io16",
                            _ => "bar_info_result_wrong",
                        };
                        out.push((rule.into(), format!("bar_info({}) = {:?}, reference {:?} [{}]", i, got, want, describe(&bc))));
                    }
                }
            }
            sh.inc(
                match bc.kinds[i] {
                    BarKind::Unimplemented => "bar_info_unimplemented",
                    BarKind::Mem32 { .. } => "bar_info_mem32",
                    BarKind::Mem64 { .. } => {
                        if i == 5 {
                            "bar_info_mem64_in_slot5"
                        } else {
                            "bar_info_mem64"
                        }
                    }
                    BarKind::Io { decode16: true, .. } => "bar_info_io16",
                    BarKind::Io { .. } => "bar_info_io",
                    BarKind::MemReserved { .. } => "bar_info_reserved_type",
                    BarKind::Upper => "x",
                },
                1,
            );
            post(&frc, &mut out, &format!("bar_info({})", i), &bc);
        }
    }
    sh.inc("config_reads_logged", frc.borrow().reads);
    sh.inc("config_writes_logged", frc.borrow().writes);
    out
}

fn caps_and_enum_case(case: u64, seed: u64, sh: &mut Shard) -> V {
    let mut rng = Rng::derive(seed, 0xC12B, case, 0);
    let mut out: V = vec![];
    let df = DeviceFunction { bus: rng.next() as u8, device: rng.below(32) as u8, function: rng.below(8) as u8 };
    let mut f = PciFn::new(df);
    f.log_on = false;
    f.regs[0] = 0x1042_1af4;
    // capability list: 0..12 entries at distinct aligned offsets >= 0x40
    let n = rng.below(13) as usize;
    let mut slots: Vec<u8> = (0x40u16..0x100).step_by(4).map(|x| x as u8).collect();
    rng.shuffle(&mut slots);
    let offs: Vec<u8> = slots[..n].to_vec();
    let has_list = n > 0 && !rng.chance(1, 10);
    let mut want = vec![];
    for (k, o) in offs.iter().enumerate() {
        let id = rng.next() as u8;
        let next = if k + 1 < n { offs[k + 1] | (rng.below(4) as u8 & if rng.chance(1, 3) { 3 } else { 0 }) } else { 0 };
        // the two low bits of 'next' are reserved and must be masked by software... but the library
        // treats unaligned next pointers as invalid, so only generate aligned ones for well-formed lists
        let next = next & 0xfc;
        let ph = rng.next() as u16;
        f.write_bytes(*o as usize, &[id, next, ph as u8, (ph >> 8) as u8]);
        want.push((*o, id, ph));
    }
    if n > 0 {
        // low two bits of the capabilities pointer are reserved: software must mask them
        f.regs[0x34 / 4] = (offs[0] | (rng.below(4) as u8)) as u32 | 0xabcd_ef00;
    }
    f.set_status(if has_list { 0x0010 } else { 0 } | (rng.next() as u16 & 0xf9a0));
    // other functions on the same bus for enumeration
    let bus = df.bus;
    let mut present: Vec<(u8, u8, [u32; 3])> = vec![];
    let density = rng.below(4);
    for dev in 0..32u8 {
        for func in 0..8u8 {
            if (dev, func) == (df.device, df.function) {
                continue;
            }
            let p = match density {
                0 => rng.chance(1, 40),
                1 => rng.chance(1, 6),
                2 => rng.chance(1, 2),
                _ => true,
            };
            if p {
                let mut id = rng.next() as u32;
                if id == 0xffff_ffff {
                    id = 0x1234_5678;
                }
                let r = [id, rng.next() as u32, rng.next() as u32];
                f.others.insert((bus, dev, func), r);
                present.push((dev, func, r));
            }
        }
    }
    let me = [f.regs[0], rng.next() as u32, rng.next() as u32];
    f.regs[2] = me[1];
    f.regs[3] = me[2];
    present.push((df.device, df.function, me));
    present.sort_by_key(|p| (p.0, p.1));
    let frc = Rc::new(RefCell::new(f));
    let root = PciRoot::new(ModelCam { f: frc.clone() });
    // capabilities
    let got: Result<Vec<(u8, u8, u16)>, _> = catch_unwind(AssertUnwindSafe(|| root.capabilities(df).take(100).map(|c| (c.offset, c.id, c.private_header)).collect()));
    let want_caps = if has_list { want.clone() } else { vec![] };
    match got {
        Err(_) => out.push(("panic_in_capabilities".into(), "capabilities() panicked".into())),
        Ok(g) => {
            if g != want_caps {
                out.push(("capability_walk_wrong".into(), format!("capabilities() = {:x?}, list is {:x?} (status bit 4 = {})", g, want_caps, has_list)));
            }
        }
    }
    sh.inc("capability_lists_checked", 1);
    sh.inc("capabilities_walked", want_caps.len() as u64);
    // enumeration
    let got: Result<Vec<_>, _> = catch_unwind(AssertUnwindSafe(|| root.enumerate_bus(bus).collect::<Vec<_>>()));
    match got {
        Err(_) => out.push(("panic_in_enumerate_bus".into(), "enumerate_bus() panicked".into())),
        Ok(g) => {
            let mut ok = g.len() == present.len();
            if ok {
                for ((gdf, info), (dev, func, r)) in g.iter().zip(present.iter()) {
                    let ht = match ((r[2] >> 16) as u8) & 0x7f {
                        0 => HeaderType::Standard,
                        1 => HeaderType::PciPciBridge,
                        2 => HeaderType::PciCardbusBridge,
                        x => HeaderType::Unrecognised(x),
                    };
                    if gdf.bus != bus || gdf.device != *dev || gdf.function != *func || info.vendor_id != r[0] as u16 || info.device_id != (r[0] >> 16) as u16 || info.class != (r[1] >> 24) as u8 || info.subclass != (r[1] >> 16) as u8 || info.prog_if != (r[1] >> 8) as u8 || info.revision != r[1] as u8 || info.header_type != ht {
                        ok = false;
                        break;
                    }
                }
            }
            if !ok {
                out.push(("enumeration_wrong".into(), format!("enumerate_bus({}) reported {} functions {:?}..., population has {} functions", bus, g.len(), g.iter().take(3).collect::<Vec<_>>(), present.len())));
            }
        }
    }
    sh.inc("bus_populations_checked", 1);
    sh.inc("functions_enumerated", present.len() as u64);
    for (rule, d) in std::mem::take(&mut frc.borrow_mut().viol) {
        out.push((rule.to_string(), d));
    }
    out
}

/// All 256 x 32 x 8 x 64 tuples under one mechanism: range, alignment, injectivity, formula.
fn cam_exhaustive(cam: Cam, sh: &mut Shard) -> V {
    let mut out: V = vec![];
    let size = cam.size() as usize;
    let mut bitmap = vec![0u64; size / 4 / 64 + 1];
    let shift = if cam == Cam::Ecam { 12 } else { 8 };
    let mut n = 0u64;
    for bus in 0..=255u8 {
        for dev in 0..32u8 {
            for func in 0..8u8 {
                let df = DeviceFunction { bus, device: dev, function: func };
                for reg in 0..64u32 {
                    let ro = (reg * 4) as u8;
                    let o = cam.cam_offset(df, ro);
                    n += 1;
                    let want = (((bus as u32) << 8 | (dev as u32) << 3 | func as u32) << shift) | ro as u32;
                    if o != want || o >= cam.size() || o % 4 != 0 {
                        if out.len() < 4 {
                            out.push(("cam_offset_wrong".into(), format!("{:?}.cam_offset({:?}, {:#x}) = {:#x}, expected {:#x} (window size {:#x})", cam, df, ro, o, want, cam.size())));
                        }
                        continue;
                    }
                    let w = (o / 4) as usize;
                    if bitmap[w / 64] >> (w % 64) & 1 == 1 {
                        if out.len() < 4 {
                            out.push(("cam_offset_collision".into(), format!("{:?}.cam_offset({:?}, {:#x}) = {:#x} collides with another tuple", cam, df, ro, o)));
                        }
                    }
                    bitmap[w / 64] |= 1 << (w % 64);
                }
            }
        }
    }
    sh.inc("cam_tuples_checked", n);
    out
}

/// Real `MmioCam` on the bus: the decoded (bus, device, function, register) must be the requested one.
fn mmiocam_case(case: u64, seed: u64, sh: &mut Shard) -> V {
    let mut rng = Rng::derive(seed, 0xC12C, case, 0);
    let mut out: V = vec![];
    mmio_bus::reset();
    let ecam = rng.bool();
    let cam = if ecam { Cam::Ecam } else { Cam::MmioCam };
    let df = DeviceFunction { bus: rng.next() as u8, device: rng.below(32) as u8, function: rng.below(8) as u8 };
    let mut f = PciFn::new(df);
    f.log_on = false;
    for i in 0..64 {
        f.regs[i] = rng.next() as u32;
    }
    let regs = f.regs;
    let frc = Rc::new(RefCell::new(f));
    let win = Rc::new(RefCell::new(CamWindow { f: frc.clone(), ecam, viol: vec![] }));
    let base = 0x0000_5000_0000_0000u64 + (rng.below(16) << 32);
    mmio_bus::map(base, cam.size() as u64, win.clone());
    // SAFETY: the address is only ever interpreted by the MMIO bus backend.
    let mut mc = unsafe { MmioCam::new(base as usize as *mut u8, cam) };
    for _ in 0..64 {
        let reg = (rng.below(64) * 4) as u8;
        if matches!(reg, 0x10..=0x27) {
            continue;
        }
        let r = catch_unwind(AssertUnwindSafe(|| mc.read_word(df, reg)));
        match r {
            Ok(v) if v == regs[(reg / 4) as usize] => {}
            Ok(v) => out.push(("mmiocam_read_wrong".into(), format!("{:?} read_word({:?}, {:#x}) = {:#x}, register holds {:#x}", cam, df, reg, v, regs[(reg / 4) as usize]))),
            Err(_) => out.push(("panic_in_mmiocam".into(), "read_word panicked".into())),
        }
        // another function must read as absent
        let mut other = df;
        other.function = (df.function + 1) % 8;
        if let Ok(v) = catch_unwind(AssertUnwindSafe(|| mc.read_word(other, reg))) {
            if v != 0xffff_ffff {
                out.push(("mmiocam_aliasing".into(), format!("{:?} read_word({:?}, {:#x}) reached function {:?}", cam, other, reg, df)));
            }
        }
        sh.inc("mmiocam_accesses_checked", 2);
    }
    let _ = catch_unwind(AssertUnwindSafe(|| mc.write_word(df, 4, 0x0000_0006)));
    if frc.borrow().command() & 0x077f != 6 {
        out.push(("mmiocam_write_wrong".into(), format!("write_word(command=6) left command {:#x}", frc.borrow().command())));
    }
    for a in mmio_bus::take_unmapped() {
        out.push(("mmiocam_access_outside_window".into(), format!("{:?}", a)));
    }
    for (r, d) in std::mem::take(&mut win.borrow_mut().viol) {
        out.push((r.to_string(), d));
    }
    mmio_bus::reset();
    out
}

pub fn run(args: &Args, sh: &mut Shard) {
    if let Some(r) = &args.replay {
        let case = r.get("case").and_then(|x| x.as_u64()).unwrap_or(0);
        let kind = r.get("kind").and_then(|x| x.as_str()).unwrap_or("bar");
        let vs = match kind {
            "bar" => bar_case(case, args.seed, sh),
            "caps" => caps_and_enum_case(case, args.seed, sh),
            "mmiocam" => mmiocam_case(case, args.seed, sh),
            _ => cam_exhaustive(if case == 0 { Cam::MmioCam } else { Cam::Ecam }, sh),
        };
        println!("REPLAY {} case {}: {:#?}", kind, case, vs);
        for (rule, d) in vs {
            sh.violation(Violation { prop: "C12".into(), signature: format!("C12/{}", rule), detail: d, replay: J::obj().with("kind", J::s(kind)).with("case", J::u(case)) });
        }
        sh.evaluations = 1;
        return;
    }
    let miri = args.is_miri();
    let n_bar = args.scaled(if miri { 64 } else if args.thorough() { 4_000_000 } else { 400_000 });
    let n_caps = args.scaled(if miri { 16 } else if args.thorough() { 200_000 } else { 20_000 });
    let n_mc = args.scaled(if miri { 0 } else if args.thorough() { 40_000 } else { 4_000 });
    for (kind, n) in [("bar", n_bar), ("caps", n_caps), ("mmiocam", n_mc)] {
        let mut case = args.shard;
        while case < n {
            crate::rng::reset_case_fp();
            let vs = match kind {
                "bar" => bar_case(case, args.seed, sh),
                "caps" => caps_and_enum_case(case, args.seed, sh),
                _ => mmiocam_case(case, args.seed, sh),
            };
            sh.evaluations += 1;
            // distinct by content: fingerprint of every generated value (plus the enumerated command bits)
            let mut h = Hash64::new();
            h.u64(crate::rng::take_case_fp());
            if kind == "bar" {
                h.u64(case & 0x3ff);
            }
            h.bytes(kind.as_bytes());
            sh.nontrivial.insert(h.finish());
            if sh.want_sample() && kind == "bar" && case < 32 {
                let mut rng = Rng::derive(args.seed, 0xC12, case, 0);
                let _ = (rng.next(), rng.below(32), rng.below(8));
                let bc = gen_bars(&mut rng, case);
                sh.sample(J::obj().with("kind", J::s("bar_probe")).with("case", J::u(case)).with("bars", J::s(format!("{:?}", bc.kinds))).with("assigned", J::s(format!("{:x?}", bc.addrs))).with("initial_command", J::s(format!("{:#06x}", bc.command))));
            }
            for (rule, d) in vs {
                sh.violation(Violation { prop: "C12".into(), signature: format!("C12/{}", rule), detail: d, replay: J::obj().with("kind", J::s(kind)).with("case", J::u(case)).with("build", J::s(args.build.clone())) });
            }
            if sh.violations.len() >= 12 {
                return;
            }
            case += args.nshards;
        }
    }
    // exhaustive CAM address space: one mechanism per shard 0 / 1
    if !miri {
        for (i, cam) in [Cam::MmioCam, Cam::Ecam].into_iter().enumerate() {
            if i as u64 % args.nshards == args.shard % 2 && args.shard < 2.min(args.nshards) || (args.nshards == 1) {
                let vs = cam_exhaustive(cam, sh);
                sh.evaluations += 1;
                let mut h = Hash64::new();
                h.u64(0xca + i as u64);
                sh.nontrivial.insert(h.finish());
                sh.inc("cam_mechanisms_exhausted", 1);
                for (rule, d) in vs {
                    sh.violation(Violation { prop: "C12".into(), signature: format!("C12/{}", rule), detail: d, replay: J::obj().with("kind", J::s("cam")).with("case", J::us(i)) });
                }
            }
        }
        sh.notes.insert("exhaustive_subspace".into(), J::s("cam_offset: all 256x32x8x64 (bus, device, function, register) tuples under both mechanisms (range, alignment, formula, injectivity bitmap); initial command: all 2^10 combinations of the defined bits enumerated by case number"));
    }
}
