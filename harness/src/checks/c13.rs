//! C13 — configuration access is bounds-checked, touches exactly the bytes of the field, and
//! multi-field reads are never torn.
use super::Args;
use crate::hooks;
use crate::json::J;
use crate::mem::{self, HalMode, LedgerHal};
use crate::mmio_bus::{self, Access};
use crate::report::{Shard, Violation};
use crate::rng::{Hash64, Rng};
use crate::xport_any::{self, AnyT, TKind};
use crate::xport_mmio::{self, MmioDev};
use crate::xport_model::{CfgAccess, ConfigScheduler, ModelState};
use std::panic::{AssertUnwindSafe, catch_unwind};
use std::ptr::NonNull;
use virtio_drivers::Error;
use virtio_drivers::device::blk::VirtIOBlk;
use virtio_drivers::device::console::VirtIOConsole;
use virtio_drivers::device::net::VirtIONetRaw;
use virtio_drivers::device::socket::VirtIOSocket;
use virtio_drivers::device::virtio_9p::VirtIO9p;
use virtio_drivers::transport::mmio::{MmioTransport, VirtIOHeader};
use virtio_drivers::transport::{DeviceType, Transport};

type V = Vec<(String, String)>;

// ---------------------------------------------------------------------------------------------
// (a) bounds

#[derive(Clone, Copy, Debug, PartialEq, Eq)]
enum Ty {
    U8,
    U16,
    U32,
    A6,
    A3,
    H3, // [u16; 3]
}
impl Ty {
    fn size(self) -> usize {
        match self {
            Ty::U8 => 1,
            Ty::U16 => 2,
            Ty::U32 => 4,
            Ty::A6 => 6,
            Ty::A3 => 3,
            Ty::H3 => 6,
        }
    }
    fn align(self) -> usize {
        match self {
            Ty::U16 | Ty::H3 => 2,
            Ty::U32 => 4,
            _ => 1,
        }
    }
}
const TYPES: [Ty; 6] = [Ty::U8, Ty::U16, Ty::U32, Ty::A6, Ty::A3, Ty::H3];

fn do_read<T: Transport>(t: &T, ty: Ty, off: usize) -> Result<Vec<u8>, Error> {
    Ok(match ty {
        Ty::U8 => t.read_config_space::<u8>(off)?.to_le_bytes().to_vec(),
        Ty::U16 => t.read_config_space::<u16>(off)?.to_le_bytes().to_vec(),
        Ty::U32 => t.read_config_space::<u32>(off)?.to_le_bytes().to_vec(),
        Ty::A6 => t.read_config_space::<[u8; 6]>(off)?.to_vec(),
        Ty::A3 => t.read_config_space::<[u8; 3]>(off)?.to_vec(),
        Ty::H3 => t.read_config_space::<[u16; 3]>(off)?.iter().flat_map(|x| x.to_le_bytes()).collect(),
    })
}
fn do_write<T: Transport>(t: &mut T, ty: Ty, off: usize, val: &[u8]) -> Result<(), Error> {
    match ty {
        Ty::U8 => t.write_config_space::<u8>(off, val[0]),
        Ty::U16 => t.write_config_space::<u16>(off, u16::from_le_bytes([val[0], val[1]])),
        Ty::U32 => t.write_config_space::<u32>(off, u32::from_le_bytes([val[0], val[1], val[2], val[3]])),
        Ty::A6 => t.write_config_space::<[u8; 6]>(off, val[..6].try_into().unwrap()),
        Ty::A3 => t.write_config_space::<[u8; 3]>(off, val[..3].try_into().unwrap()),
        Ty::H3 => t.write_config_space::<[u16; 3]>(off, [u16::from_le_bytes([val[0], val[1]]), u16::from_le_bytes([val[2], val[3]]), u16::from_le_bytes([val[4], val[5]])]),
    }
}

fn offsets(w: usize) -> Vec<usize> {
    let mut v: Vec<usize> = (0..=w + 8).collect();
    v.extend([1usize << 31, (1usize << 32) - 4, (1usize << 32), usize::MAX / 2 + 1]);
    v.extend((usize::MAX - 7)..=usize::MAX);
    v
}

/// Check one access.  `window` = true length of the window, `effective` = part of it the transport is
/// required to serve (PCI rounds the window down to whole 32-bit words), cfg base address on the bus.
#[allow(clippy::too_many_arguments)]
fn judge(what: &str, ty: Ty, off: usize, write: bool, window: Option<usize>, effective: usize, cfg_va: u64, res: std::thread::Result<Result<Vec<u8>, Error>>, tr: &[Access], unmapped: usize, content: &[u8], wrote: &[u8], out: &mut V, sh: &mut Shard) {
    let size = ty.size();
    let aligned = off % ty.align() == 0;
    let end = off as u128 + size as u128;
    let touched: Vec<(u64, u8)> = tr.iter().map(|a| (a.addr.wrapping_sub(cfg_va), a.width)).collect();
    let res_desc = format!("{:?}", res.as_ref().map(|r| r.as_ref().map(|_| "Ok").map_err(|e| *e)).map_err(|_| "panic"));
    let ctx = || format!("{} {}::<{:?}>(offset {:#x}) on a {:?}-byte window: result {}, accesses {:x?}", what, if write { "write_config_space" } else { "read_config_space" }, ty, off, window, res_desc, touched);
    if unmapped > 0 {
        out.push(("config_access_outside_window".into(), ctx()));
        return;
    }
    // bytes touched must lie inside [off, off+size) whatever the outcome
    for a in tr {
        let o = a.addr.wrapping_sub(cfg_va) as u128;
        if o < off as u128 || o + a.width as u128 > end || a.write != write {
            out.push(("config_access_touched_other_bytes".into(), ctx()));
            return;
        }
    }
    if !aligned {
        // documented assert: panic without access is fine; so is an error
        sh.inc("misaligned_offsets_checked", 1);
        if !tr.is_empty() && res.is_err() {
            out.push(("config_access_before_panic".into(), ctx()));
        }
        return;
    }
    match window {
        None => {
            sh.inc("missing_window_checked", 1);
            match res {
                Ok(Err(Error::ConfigSpaceMissing)) if tr.is_empty() => {}
                _ => out.push(("config_missing_not_reported".into(), ctx())),
            }
        }
        Some(w) => {
            let inside_eff = end <= effective as u128;
            let inside_true = end <= w as u128;
            match res {
                Err(_) => out.push((if inside_true { "panic_in_config_access".into() } else { "panic_instead_of_too_small".into() }, ctx())),
                Ok(Ok(bytes)) => {
                    if !inside_true {
                        out.push(("out_of_window_access_succeeded".into(), ctx()));
                        return;
                    }
                    // exactly the bytes of the field, each once
                    let mut cover = vec![0u8; size];
                    for a in tr {
                        let o = (a.addr.wrapping_sub(cfg_va)) as usize - off;
                        for i in 0..a.width as usize {
                            cover[o + i] += 1;
                        }
                    }
                    if cover.iter().any(|c| *c != 1) {
                        out.push(("config_access_not_exact".into(), ctx()));
                        return;
                    }
                    if !write && bytes != content[off..off + size] {
                        out.push(("config_value_wrong".into(), format!("{} returned {:x?}, window holds {:x?}", ctx(), bytes, &content[off..off + size])));
                    }
                    if write && wrote != bytes.as_slice() {
                        out.push(("config_value_wrong".into(), format!("{} stored {:x?}", ctx(), wrote)));
                    }
                    sh.inc("in_window_accesses_checked", 1);
                }
                Ok(Err(e)) => {
                    if inside_eff {
                        out.push(("in_window_access_refused".into(), ctx()));
                    } else if e != Error::ConfigSpaceTooSmall || !tr.is_empty() {
                        out.push(("wrong_error_or_access_on_refusal".into(), ctx()));
                    }
                    sh.inc("out_of_window_refusals_checked", 1);
                }
            }
        }
    }
}

fn sweep<T: Transport>(what: &str, t: &mut T, window: Option<usize>, effective: usize, cfg_va: u64, st: &std::rc::Rc<std::cell::RefCell<ModelState>>, out: &mut V, sh: &mut Shard, rng: &mut Rng) {
    let w = window.unwrap_or(0);
    for ty in TYPES {
        for off in offsets(w) {
            for write in [false, true] {
                if out.len() >= 6 {
                    return;
                }
                let content = st.borrow().config.clone();
                let mut val = vec![0u8; 6];
                rng.fill(&mut val);
                mmio_bus::trace(true);
                let res = if write {
                    let v2 = val.clone();
                    catch_unwind(AssertUnwindSafe(|| do_write(t, ty, off, &v2).map(|_| v2[..ty.size()].to_vec())))
                } else {
                    catch_unwind(AssertUnwindSafe(|| do_read(t, ty, off)))
                };
                let tr = mmio_bus::take_trace();
                mmio_bus::trace(false);
                let unm = mmio_bus::take_unmapped().len();
                let wrote: Vec<u8> = if write && off.checked_add(ty.size()).is_some_and(|e| e <= st.borrow().config.len()) { st.borrow().config[off..off + ty.size()].to_vec() } else { vec![] };
                judge(what, ty, off, write, window, effective, cfg_va, res, &tr, unm, &content, &wrote, out, sh);
                sh.inc("config_accesses_judged", 1);
            }
        }
    }
}

fn bounds_case(case: u64, seed: u64, sh: &mut Shard) -> V {
    let mut rng = Rng::derive(seed, 0xC13, case, 0);
    let mut out: V = vec![];
    let windows = [0usize, 1, 2, 3, 4, 6, 8, 10, 64, 4096];
    let w = windows[(case / 2) as usize % windows.len()];
    mmio_bus::reset();
    mem::reset(HalMode::Bounce);
    if case % 2 == 0 {
        // MMIO, legacy and modern alternate
        let st = ModelState::new(DeviceType::Block, 0);
        st.borrow_mut().config = (0..w).map(|i| (i * 13 + 5) as u8).collect();
        let version = if (case / 20) % 2 == 0 { 2 } else { 1 };
        let dev = MmioDev::new(&st, version, 2);
        let size = 0x100 + w;
        let (base, rc) = xport_mmio::map_device(dev, 5, size as u64);
        // SAFETY: the address is only ever interpreted by the MMIO bus backend.
        let mut t = unsafe { MmioTransport::new(NonNull::new(base as *mut VirtIOHeader).unwrap(), size) }.expect("mmio");
        sweep("MMIO", &mut t, Some(w), w, base + 0x100, &st, &mut out, sh, &mut rng);
        for (r, d) in rc.borrow_mut().take_viol() {
            out.push((r.to_string(), d));
        }
        std::mem::forget(t);
        sh.inc("mmio_windows_swept", 1);
    } else {
        let st = ModelState::new(DeviceType::Block, 0);
        st.borrow_mut().config = (0..w).map(|i| (i * 11 + 7) as u8).collect();
        let (mut t, pv) = match xport_any::try_build_pci(&st, 2, Some(w as u32)) {
            Ok(x) => x,
            Err(_) => {
                // a device-configuration window shorter than one 32-bit word is refused at construction
                sh.inc("pci_windows_refused_at_construction", 1);
                mmio_bus::reset();
                return out;
            }
        };
        let window = if w == 0 { None } else { Some(w) };
        sweep("PCI", &mut t, window, w / 4 * 4, 0x8_4000_0000u64 + 0x2000 + mem::MMIO_VOFF, &st, &mut out, sh, &mut rng);
        for (r, d) in pv.borrow_mut().take_viol() {
            out.push((r.to_string(), d));
        }
        std::mem::forget(t);
        sh.inc("pci_windows_swept", 1);
    }
    mmio_bus::reset();
    out
}

// ---------------------------------------------------------------------------------------------
// (b) torn reads

#[derive(Clone, Copy, Debug, PartialEq, Eq)]
enum Drv {
    Blk,
    Vsock,
    Console,
    Net,
    P9,
}
const DRVS: [Drv; 5] = [Drv::Blk, Drv::Vsock, Drv::Console, Drv::Net, Drv::P9];

fn tag_of(v: u32) -> String {
    format!("tag{:03}{}", v, "xyzuvw".chars().take((v % 5) as usize).collect::<String>())
}

fn render(d: Drv, v: u32) -> Vec<u8> {
    let mut c = vec![0u8; 64];
    match d {
        Drv::Blk | Drv::Vsock => {
            let val: u64 = ((v as u64 + 1) << 32) | (0xabc0_0000 + v as u64);
            c[..8].copy_from_slice(&val.to_le_bytes());
        }
        Drv::Console => {
            c[..2].copy_from_slice(&(100 + v as u16).to_le_bytes());
            c[2..4].copy_from_slice(&(200 + v as u16).to_le_bytes());
        }
        Drv::Net => {
            let m = [v as u8, !(v as u8), v as u8 + 1, v as u8 + 2, v as u8 + 3, v as u8 + 4];
            c[..6].copy_from_slice(&m);
            c[6] = 1;
        }
        Drv::P9 => {
            let t = tag_of(v);
            c[..2].copy_from_slice(&(t.len() as u16).to_le_bytes());
            c[2..2 + t.len()].copy_from_slice(t.as_bytes());
        }
    }
    c
}

#[derive(Clone, Debug, PartialEq, Eq)]
enum Val {
    U64(u64),
    Size(u16, u16),
    Mac([u8; 6]),
    Tag(String),
}
fn value_of(d: Drv, v: u32) -> Val {
    match d {
        Drv::Blk | Drv::Vsock => Val::U64(((v as u64 + 1) << 32) | (0xabc0_0000 + v as u64)),
        Drv::Console => Val::Size(100 + v as u16, 200 + v as u16),
        Drv::Net => Val::Mac([v as u8, !(v as u8), v as u8 + 1, v as u8 + 2, v as u8 + 3, v as u8 + 4]),
        Drv::P9 => Val::Tag(tag_of(v)),
    }
}

struct Versioned {
    d: Drv,
    bump_at: Vec<u32>,
    count: u32,
    version: u32,
    armed: bool,
    /// (accesses seen, current version), shared with the harness
    shared: std::rc::Rc<std::cell::Cell<(u32, u32)>>,
}
impl ConfigScheduler for Versioned {
    fn before(&mut self, _a: CfgAccess, config: &mut Vec<u8>, generation: &mut u32) {
        if !self.armed {
            return;
        }
        self.count += 1;
        if self.bump_at.contains(&self.count) {
            self.version += 1;
            *generation = generation.wrapping_add(1);
            *config = render(self.d, self.version);
        }
        self.shared.set((self.count, self.version));
    }
}

thread_local! {
    static SCHED_STATS: std::cell::Cell<(u32, u32)> = const { std::cell::Cell::new((0, 0)) };
}

/// Construct the driver on the given transport with the given bump schedule; returns the value it
/// reports, the number of config accesses seen and the final version.
fn torn_run(d: Drv, kind: TKind, bumps: &[u32]) -> Result<(Val, u32, u32), String> {
    mem::reset(HalMode::Bounce);
    hooks::clear();
    let (dt, feats) = match d {
        Drv::Blk => (DeviceType::Block, 1u64 << 32),
        Drv::Vsock => (DeviceType::Socket, 1u64 << 32),
        Drv::Console => (DeviceType::Console, 1u64 << 32 | 1),
        Drv::Net => (DeviceType::Network, 1u64 << 32 | 1 << 5 | 1 << 16),
        Drv::P9 => (DeviceType::_9P, 1u64 << 32 | 1),
    };
    let (rig, t) = xport_any::build(kind, dt, feats, render(d, 0));
    // schedule counts only from the driver's construction on
    let shared = std::rc::Rc::new(std::cell::Cell::new((0u32, 0u32)));
    let sched = Versioned { d, bump_at: bumps.to_vec(), count: 0, version: 0, armed: true, shared: shared.clone() };
    rig.st.borrow_mut().scheduler = Some(Box::new(sched));
    let r = catch_unwind(AssertUnwindSafe(|| -> Result<Val, String> {
        Ok(match d {
            Drv::Blk => {
                let b = VirtIOBlk::<LedgerHal, AnyT>::new(t).map_err(|e| format!("{:?}", e))?;
                Val::U64(b.capacity())
            }
            Drv::Vsock => {
                let s = VirtIOSocket::<LedgerHal, AnyT>::new(t).map_err(|e| format!("{:?}", e))?;
                Val::U64(s.guest_cid())
            }
            Drv::Console => {
                let c = VirtIOConsole::<LedgerHal, AnyT>::new(t).map_err(|e| format!("{:?}", e))?;
                let s = c.size().map_err(|e| format!("{:?}", e))?.ok_or("size() = None although SIZE was negotiated")?;
                Val::Size(s.columns, s.rows)
            }
            Drv::Net => {
                let n = VirtIONetRaw::<LedgerHal, AnyT, 4>::new(t).map_err(|e| format!("{:?}", e))?;
                Val::Mac(n.mac_address())
            }
            Drv::P9 => {
                let p = VirtIO9p::<LedgerHal, AnyT>::new(t).map_err(|e| format!("{:?}", e))?;
                Val::Tag(p.mount_tag().to_string())
            }
        })
    }));
    rig.st.borrow_mut().scheduler = None;
    let (count, version) = shared.get();
    mmio_bus::reset();
    match r {
        Err(_) => Err("driver construction panicked".into()),
        Ok(Err(e)) => Err(e),
        Ok(Ok(v)) => Ok((v, count, version)),
    }
}

fn torn_case(d: Drv, kind: TKind, bumps: &[u32], sh: &mut Shard) -> V {
    let mut out: V = vec![];
    match torn_run(d, kind, bumps) {
        Err(e) => {
            // a config update may legitimately make a *single* read fail only for the 9P tag (length
            // and bytes belong to different versions => retried); any error here is reported
            out.push(("multi_field_read_failed".into(), format!("{:?} on {}: {} with config updates before accesses {:?}", d, kind.name(), e, bumps)));
        }
        Ok((val, count, version)) => {
            sh.inc("torn_read_runs", 1);
            sh.inc("config_accesses_scheduled", count as u64);
            sh.inc("config_versions_exposed", version as u64 + 1);
            let ok = (0..=version).any(|v| value_of(d, v) == val);
            if !ok {
                out.push(("torn_multi_field_read".into(), format!("{:?} on {}: driver reports {:?}, but the device only ever exposed {:?} (config updates before accesses {:?})", d, kind.name(), val, (0..=version).map(|v| value_of(d, v)).collect::<Vec<_>>(), bumps)));
            }
        }
    }
    out
}

fn subsets(n: u32, maxk: usize) -> Vec<Vec<u32>> {
    let mut v = vec![];
    for a in 1..=n {
        v.push(vec![a]);
        if maxk >= 2 {
            for b in a + 1..=n {
                v.push(vec![a, b]);
                if maxk >= 3 {
                    for c in b + 1..=n {
                        v.push(vec![a, b, c]);
                    }
                }
            }
        }
    }
    v
}

pub fn run(args: &Args, sh: &mut Shard) {
    if args.is_miri() {
        sh.inconclusive.push("C13 uses fabricated MMIO addresses; not run under Miri".into());
        return;
    }
    if let Some(r) = &args.replay {
        let kind = r.get("kind").and_then(|x| x.as_str()).unwrap_or("bounds");
        sh.evaluations = 1;
        let vs = if kind == "bounds" {
            bounds_case(r.get("case").and_then(|x| x.as_u64()).unwrap_or(0), args.seed, sh)
        } else {
            let d = DRVS[r.get("driver").and_then(|x| x.as_u64()).unwrap_or(0) as usize];
            let k = xport_any::ALL_KINDS[r.get("transport").and_then(|x| x.as_u64()).unwrap_or(0) as usize];
            let b: Vec<u32> = r.get("bumps").and_then(|x| x.as_arr()).map(|a| a.iter().filter_map(|x| x.as_u64()).map(|x| x as u32).collect()).unwrap_or_default();
            torn_case(d, k, &b, sh)
        };
        println!("REPLAY {}: {:#?}", kind, vs);
        for (rule, d) in vs {
            sh.violation(Violation { prop: "C13".into(), signature: format!("C13/{}", rule), detail: d, replay: r.clone() });
        }
        return;
    }
    // (a) 40 bounds cases: 10 window sizes x {MMIO modern, PCI, MMIO legacy, PCI}
    for case in 0..40u64 {
        if case % args.nshards != args.shard {
            continue;
        }
        let vs = bounds_case(case, args.seed, sh);
        sh.evaluations += 1;
        let mut h = Hash64::new();
        h.u64(0xb0 + case);
        sh.nontrivial.insert(h.finish());
        for (rule, d) in vs {
            sh.violation(Violation { prop: "C13".into(), signature: format!("C13/{}", rule), detail: d, replay: J::obj().with("kind", J::s("bounds")).with("case", J::u(case)).with("build", J::s(args.build.clone())) });
        }
    }
    // (b) torn reads: drivers x transports x schedules
    let kinds = [TKind::Model, TKind::MmioModern, TKind::MmioLegacy, TKind::Pci];
    let mut work: Vec<(usize, usize, Vec<u32>)> = vec![];
    for (di, d) in DRVS.iter().enumerate() {
        for (ki, k) in kinds.iter().enumerate() {
            // dry run to learn how many config accesses a clean construction makes
            let n = match torn_run(*d, *k, &[]) {
                Ok((_, c, _)) => c,
                Err(e) => {
                    sh.violation(Violation { prop: "C13".into(), signature: "C13/multi_field_read_failed".into(), detail: format!("{:?} on {}: {} (no config updates)", d, k.name(), e), replay: J::obj().with("kind", J::s("torn")).with("driver", J::us(di)).with("transport", J::us(xport_any::ALL_KINDS.iter().position(|x| x == k).unwrap())).with("bumps", J::arr([])) });
                    continue;
                }
            };
            // every placement of 1..3 updates among the accesses of a clean run (+4 for the retries)
            let span = (n + 4).min(if *d == Drv::P9 { 26 } else { 16 });
            let maxk = if *d == Drv::P9 && !args.thorough() { 2 } else { 3 };
            for s in subsets(span, maxk) {
                work.push((di, ki, s));
            }
            // random longer schedules
            let mut rng = Rng::derive(args.seed, 0xC13B, di as u64, ki as u64);
            for _ in 0..args.scaled(if args.thorough() { 2000 } else { 100 }) {
                let k = rng.range(1, 12) as usize;
                let mut s: Vec<u32> = (0..k).map(|_| rng.range(1, 80) as u32).collect();
                s.sort();
                s.dedup();
                work.push((di, ki, s));
            }
        }
    }
    for (i, (di, ki, s)) in work.iter().enumerate() {
        if i as u64 % args.nshards != args.shard {
            continue;
        }
        let vs = torn_case(DRVS[*di], kinds[*ki], s, sh);
        sh.evaluations += 1;
        let mut h = Hash64::new();
        h.u64(*di as u64 | (*ki as u64) << 8);
        for b in s {
            h.u64(*b as u64);
        }
        sh.nontrivial.insert(h.finish());
        if sh.want_sample() && s.len() == 2 {
            sh.sample(J::obj().with("kind", J::s("torn_read_schedule")).with("driver", J::s(format!("{:?}", DRVS[*di]))).with("transport", J::s(kinds[*ki].name())).with("config_updates_before_access_numbers", J::arr(s.iter().map(|x| J::u(*x as u64)))));
        }
        for (rule, d) in vs {
            sh.violation(Violation {
                prop: "C13".into(),
                signature: format!("C13/{}", rule),
                detail: d,
                replay: J::obj().with("kind", J::s("torn")).with("driver", J::us(*di)).with("transport", J::us(xport_any::ALL_KINDS.iter().position(|x| *x == kinds[*ki]).unwrap())).with("bumps", J::arr(s.iter().map(|x| J::u(*x as u64)))).with("build", J::s(args.build.clone())),
            });
        }
        if sh.violations.len() >= 12 {
            return;
        }
    }
    sh.notes.insert("exhaustive_subspace".into(), J::s("(a) every offset 0..=W+8 plus huge offsets for 6 types x 10 window sizes x read/write on MMIO (legacy+modern) and PCI; (b) every placement of 1..3 configuration updates among the configuration accesses of a clean driver construction (+4 retry accesses; 9P mount tag: 1..2 in quick, 1..3 in thorough) for 5 drivers x 4 transports"));
}
