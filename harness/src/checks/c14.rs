//! C14 — block requests carry the caller's data intact and match the right completion.
use super::Args;
use crate::devsim::{self, DViol, Personality, Policy, QSrv};
use crate::hooks;
use crate::json::J;
use crate::mem::{self, HalMode, LedgerHal};
use crate::report::{Shard, Violation};
use crate::rng::{Hash64, Rng};
use crate::vqdev::Chain;
use crate::xport_any::{self, AnyT, Rig, TKind};
use std::cell::RefCell;
use std::collections::HashMap;
use std::panic::{AssertUnwindSafe, catch_unwind};
use std::rc::Rc;
use virtio_drivers::Error;
use virtio_drivers::device::blk::{BlkReq, BlkResp, SECTOR_SIZE, VirtIOBlk};
use virtio_drivers::transport::DeviceType;

pub const BLK_RO: u64 = 1 << 5;
pub const BLK_FLUSH: u64 = 1 << 9;

#[derive(Clone, Debug, PartialEq, Eq)]
pub struct ReqRec {
    pub head: u16,
    pub ty: u32,
    pub sector: u64,
    pub data_len: usize,
    pub status: u8,
    pub data_hash: u64,
}

pub fn sector_default(sector: u64) -> [u8; 512] {
    let mut r = Rng::new(sector ^ 0xd15c_d15c);
    let mut b = [0u8; 512];
    r.fill(&mut b);
    b
}

pub struct RefBlk {
    pub rig_st: Rc<RefCell<crate::xport_model::ModelState>>,
    pub q: Option<QSrv>,
    pub policy: Policy,
    pub disk: HashMap<u64, [u8; 512]>,
    pub viol: Vec<DViol>,
    pub log: Vec<ReqRec>,
    /// statuses to hand out (front first); empty => OK
    pub status_plan: Vec<u8>,
    /// complete requests as soon as they are fetched (blocking API); otherwise they stay held
    pub auto_complete: bool,
    pub flush_negotiated: bool,
    pub id_string: [u8; 20],
    pub rng: Rng,
    pub raise_interrupts: bool,
    pub lost_wakeup: bool,
}

impl RefBlk {
    pub fn new(rig: &Rig, policy: Policy, seed: u64) -> RefBlk {
        RefBlk { rig_st: rig.st.clone(), q: None, policy, disk: HashMap::new(), viol: vec![], log: vec![], status_plan: vec![], auto_complete: true, flush_negotiated: false, id_string: *b"verif-disk-0001\0\0\0\0\0", rng: Rng::new(seed), raise_interrupts: true, lost_wakeup: false }
    }
    fn v(&mut self, prop: &'static str, rule: &'static str, detail: String) {
        if self.viol.len() < 8 {
            self.viol.push(DViol { prop, rule, detail });
        }
    }
    pub fn read_sector(&self, s: u64) -> [u8; 512] {
        self.disk.get(&s).copied().unwrap_or_else(|| sector_default(s))
    }
    fn ensure_queue(&mut self) {
        if self.q.is_none() {
            let st = self.rig_st.borrow();
            if st.status & 4 != 0 {
                self.q = QSrv::new(&st, 0, self.policy);
                self.flush_negotiated = st.driver_features.unwrap_or(0) & BLK_FLUSH != 0;
            }
        }
    }
    /// Parse + execute the held chain at index i; returns bytes to write into the writable part and the status.
    fn execute(&mut self, ch: &Chain) -> (Vec<u8>, u8, Option<ReqRec>) {
        let q = self.q.as_ref().unwrap();
        let n = ch.elems.len();
        let shape_ok = n >= 2 && !ch.elems[0].write && ch.elems[0].len == 16 && ch.elems[n - 1].write && ch.elems[n - 1].len == 1;
        if !shape_ok {
            let d = format!("request chain is {:?}; expected [16-byte readable header][data][1-byte writable status]", ch.elems);
            self.v("C14", "request_chain_shape", d);
            return (vec![], 0xff, None);
        }
        let readable = match q.dev.read_payload(ch) {
            Ok(r) => r,
            Err(e) => {
                self.v("C04", "device_cannot_read_buffer", e);
                return (vec![], 0xff, None);
            }
        };
        let ty = u32::from_le_bytes(readable[0..4].try_into().unwrap());
        let reserved = u32::from_le_bytes(readable[4..8].try_into().unwrap());
        let sector = u64::from_le_bytes(readable[8..16].try_into().unwrap());
        let out_data = &readable[16..];
        let wcap = ch.writable_len() - 1;
        let mut status = if self.status_plan.is_empty() { 0 } else { self.status_plan.remove(0) };
        let mut payload: Vec<u8> = vec![];
        let mut data_len = 0;
        let mut h = Hash64::new();
        if reserved != 0 {
            self.v("C14", "request_header_reserved_nonzero", format!("reserved field = {:#x}", reserved));
        }
        match ty {
            0 => {
                if !out_data.is_empty() || wcap == 0 || wcap % 512 != 0 || n != 3 {
                    self.v("C14", "read_request_layout", format!("IN request with {} readable data bytes and {} writable data bytes in {} descriptors", out_data.len(), wcap, n));
                }
                data_len = wcap;
                for i in 0..(wcap / 512) as u64 {
                    payload.extend_from_slice(&self.read_sector(sector.wrapping_add(i)));
                }
                payload.resize(wcap, 0);
                if status != 0 {
                    // a failed read leaves garbage
                    for b in payload.iter_mut() {
                        *b = 0xBD;
                    }
                }
                h.bytes(&payload);
            }
            1 => {
                if wcap != 0 || out_data.is_empty() || out_data.len() % 512 != 0 || n != 3 {
                    self.v("C14", "write_request_layout", format!("OUT request with {} readable data bytes and {} writable data bytes in {} descriptors", out_data.len(), wcap, n));
                }
                data_len = out_data.len();
                h.bytes(out_data);
                if status == 0 {
                    for (i, c) in out_data.chunks(512).enumerate() {
                        if c.len() == 512 {
                            self.disk.insert(sector.wrapping_add(i as u64), c.try_into().unwrap());
                        }
                    }
                }
            }
            4 => {
                if !self.flush_negotiated {
                    self.v("C14", "flush_without_feature", "FLUSH request although VIRTIO_BLK_F_FLUSH was not negotiated".into());
                }
                if !out_data.is_empty() || wcap != 0 {
                    self.v("C14", "flush_request_layout", format!("FLUSH request with {}+{} data bytes", out_data.len(), wcap));
                }
            }
            8 => {
                if wcap != 20 || !out_data.is_empty() {
                    self.v("C14", "getid_request_layout", format!("GET_ID request with {} writable data bytes", wcap));
                }
                payload = self.id_string.to_vec();
                payload.resize(wcap, 0);
                data_len = wcap;
            }
            other => {
                self.v("C14", "unknown_request_type", format!("request type {}", other));
                status = 2;
            }
        }
        let rec = ReqRec { head: ch.head, ty, sector, data_len, status, data_hash: h.finish() };
        payload.push(status);
        (payload, status, Some(rec))
    }

    /// Complete the held request at position i.
    pub fn complete_held(&mut self, i: usize) -> Option<ReqRec> {
        let ch = self.q.as_ref()?.held.get(i)?.clone();
        let (payload, _status, rec) = self.execute(&ch);
        let wl = payload.len();
        let q = self.q.as_mut().unwrap();
        // status is the last writable byte: scatter payload (data then status)
        if let Err(e) = q.complete_at(i, &payload, Some(wl as u32)) {
            self.v("C04", "device_cannot_write_buffer", e);
        }
        if self.raise_interrupts {
            let want = self.q.as_mut().unwrap().wants_interrupt();
            if want {
                self.rig_st.borrow_mut().isr |= 1;
            }
        }
        if let Some(r) = &rec {
            self.log.push(r.clone());
        }
        rec
    }
    pub fn held(&self) -> usize {
        self.q.as_ref().map(|q| q.held.len()).unwrap_or(0)
    }
}

impl Personality for RefBlk {
    fn step(&mut self) {
        self.ensure_queue();
        let notes = self.rig_st.borrow_mut().take_notifications();
        let Some(q) = self.q.as_mut() else { return };
        if notes.contains(&0) {
            q.notified = true;
            if q.policy == Policy::Polling && !q.dev.event_idx {
                self.viol.push(DViol { prop: "C05", rule: "notified_although_suppressed", detail: "driver notified the block device although NO_NOTIFY was set".into() });
            }
        }
        let q = self.q.as_mut().unwrap();
        if q.pending() > 0 {
            if q.may_look() {
                if let Err(e) = q.fetch_all() {
                    self.v("C01", "chain_malformed", e);
                    return;
                }
            } else {
                // the device only serves on notification and was never told about the new entries
                self.lost_wakeup = true;
                self.v("C05", "wait_without_notification", "blocking block request waits on a serve-on-notify device that was not notified".into());
                return;
            }
        }
        if self.auto_complete {
            while self.held() > 0 {
                self.complete_held(0);
            }
        }
    }
    fn fatal(&self) -> bool {
        self.viol.iter().any(|v| v.rule == "wait_without_notification" || v.rule == "chain_malformed")
    }
}

fn map_status(s: u8) -> Result<(), Error> {
    match s {
        0 => Ok(()),
        1 => Err(Error::IoError),
        2 => Err(Error::Unsupported),
        3 => Err(Error::NotReady),
        _ => Err(Error::IoError),
    }
}

struct Nb {
    token: u16,
    req: Box<BlkReq>,
    resp: Box<BlkResp>,
    buf: Vec<u8>,
    is_read: bool,
    sector: u64,
    write_hash: u64,
}

pub struct CaseOut {
    pub viol: Vec<DViol>,
    pub hash: u64,
    pub requests: u64,
    pub nb_max_outstanding: u64,
    pub ooo: bool,
    pub counters: Vec<(&'static str, u64)>,
    pub sample: Option<J>,
}

pub fn blk_config(capacity: u64) -> Vec<u8> {
    let mut c = vec![0u8; 64];
    c[..8].copy_from_slice(&capacity.to_le_bytes());
    c
}

pub fn one_case(case: u64, seed: u64, steps: usize, want_sample: bool) -> CaseOut {
    let mut rng = Rng::derive(seed, 0xC14, case, 0);
    mem::reset(HalMode::Bounce);
    hooks::clear();
    let kind = *rng.pick(&[TKind::Model, TKind::Model, TKind::MmioModern, TKind::MmioModern, TKind::MmioLegacy, TKind::Pci, TKind::ModelLegacy, TKind::SomeMmio]);
    let mut x = case;
    let fbits = crate::rng::splitmix64(&mut x);
    let mut offered = devsim::F_VERSION_1;
    if fbits & 1 != 0 {
        offered |= BLK_RO;
    }
    if fbits & 2 != 0 {
        offered |= BLK_FLUSH;
    }
    if fbits & 4 != 0 {
        offered |= devsim::F_INDIRECT;
    }
    if fbits & 8 != 0 {
        offered |= devsim::F_EVENT_IDX;
    }
    if kind.legacy() {
        offered &= !devsim::F_VERSION_1;
    }
    offered |= rng.next() & 0x0000_00f0_00c0_1c57; // irrelevant bits (must not be accepted)
    let capacity = *rng.pick(&[0u64, 1, 2048, 1 << 32, (1 << 32) + 5, u64::MAX]);
    let policy = *rng.pick(&[Policy::OnNotify, Policy::Polling, Policy::Eager]);
    let (rig, t) = xport_any::build(kind, DeviceType::Block, offered, blk_config(capacity));
    let dev = Rc::new(RefCell::new(RefBlk::new(&rig, policy, rng.next())));
    devsim::install_spin(&dev);
    let mut out = CaseOut { viol: vec![], hash: 0, requests: 0, nb_max_outstanding: 0, ooo: false, counters: vec![], sample: None };
    let mut hh = Hash64::new();
    hh.u64(fbits & 15);
    hh.u64(kind as u64);
    hh.u64(policy as u64);
    let mut oplog: Vec<String> = vec![];
    let mut c_ops = [0u64; 8];
    macro_rules! fail {
        ($prop:expr, $rule:expr, $($arg:tt)*) => {{
            out.viol.push(DViol { prop: $prop, rule: $rule, detail: format!($($arg)*) });
        }};
    }
    let mut blk = match catch_unwind(AssertUnwindSafe(|| VirtIOBlk::<LedgerHal, AnyT>::new(t))) {
        Ok(Ok(b)) => b,
        Ok(Err(e)) => {
            fail!("C14", "construction_failed", "VirtIOBlk::new failed with {:?} on {}", e, kind.name());
            return out;
        }
        Err(_) => {
            fail!("C14", "construction_panicked", "VirtIOBlk::new panicked on {}", kind.name());
            return out;
        }
    };
    let neg = devsim::negotiated(&rig);
    if blk.capacity() != capacity {
        fail!("C14", "capacity_wrong", "capacity() = {} but the device's configuration says {}", blk.capacity(), capacity);
    }
    if blk.readonly() != (offered & BLK_RO != 0) {
        fail!("C14", "readonly_wrong", "readonly() = {} but RO offered = {}", blk.readonly(), offered & BLK_RO != 0);
    }
    // let the device arm its notification suppression before the first request
    dev.borrow_mut().step();
    let sectors = [0u64, 1, 7, 1000, (1 << 32) - 1, 1 << 32, (1 << 32) + 3, 1 << 63, u64::MAX - 9, 0x1234_5678_9abc];
    let pick_sector = |rng: &mut Rng| if rng.chance(2, 3) { sectors[rng.below(sectors.len() as u64) as usize] } else { rng.next() >> rng.below(40) };
    let mut nbs: Vec<Nb> = vec![];
    for _step in 0..steps {
        if !out.viol.is_empty() || !dev.borrow().viol.is_empty() {
            break;
        }
        let mut op = rng.below(100);
        if !nbs.is_empty() {
            // in non-blocking mode: 30% submit, 60% complete, 10% interrupt plumbing
            op = match op {
                0..=29 => 60,
                30..=89 => 85,
                _ => 99,
            };
            if nbs.len() >= 3 && rng.chance(1, 3) {
                op = 85;
            }
        }
        // blocking operations are only legal when nothing else is in flight on the queue
        if nbs.is_empty() && op < 55 {
            dev.borrow_mut().auto_complete = true;
            let status = match rng.below(10) {
                0 => 1,
                1 => 2,
                2 => 3,
                3 => 0xff,
                _ => 0,
            };
            dev.borrow_mut().status_plan = vec![status];
            let sector = pick_sector(&mut rng);
            let nsec = rng.range(1, 8) as usize;
            let log0 = dev.borrow().log.len();
            match op % 5 {
                0 | 1 => {
                    let mut buf = vec![0x5au8; nsec * SECTOR_SIZE];
                    let r = catch_unwind(AssertUnwindSafe(|| blk.read_blocks(sector as usize, &mut buf)));
                    c_ops[0] += 1;
                    hh.u64(0x10 | sector << 8);
                    oplog.push(format!("read_blocks(sector {:#x}, {} sectors) status {}", sector, nsec, status));
                    match r {
                        Err(_) => fail!("C14", "panic_in_read", "read_blocks panicked"),
                        Ok(r) => {
                            if r != map_status(status) {
                                fail!("C14", "status_mapping_wrong", "read_blocks returned {:?} for device status {}", r, status);
                            }
                            let d = dev.borrow();
                            match d.log.get(log0) {
                                Some(rec) if d.log.len() == log0 + 1 => {
                                    if rec.ty != 0 || rec.sector != sector || rec.data_len != nsec * 512 {
                                        fail!("C14", "request_header_wrong", "read_blocks(sector {:#x}, {} bytes) reached the device as {:?}", sector, nsec * 512, rec);
                                    }
                                }
                                _ => fail!("C14", "request_count_wrong", "read_blocks produced {} requests", d.log.len() - log0),
                            }
                            if status == 0 {
                                for i in 0..nsec {
                                    if buf[i * 512..(i + 1) * 512] != d.read_sector(sector.wrapping_add(i as u64)) {
                                        fail!("C14", "read_data_wrong", "read_blocks(sector {:#x}) returned other bytes than the disk holds in sector +{}", sector, i);
                                        break;
                                    }
                                }
                            }
                        }
                    }
                }
                2 | 3 => {
                    let mut buf = vec![0u8; nsec * SECTOR_SIZE];
                    rng.fill(&mut buf);
                    let mut wh = Hash64::new();
                    wh.bytes(&buf);
                    let before: Vec<[u8; 512]> = (0..nsec).map(|i| dev.borrow().read_sector(sector.wrapping_add(i as u64))).collect();
                    let r = catch_unwind(AssertUnwindSafe(|| blk.write_blocks(sector as usize, &buf)));
                    c_ops[1] += 1;
                    hh.u64(0x20 | sector << 8);
                    oplog.push(format!("write_blocks(sector {:#x}, {} sectors) status {}", sector, nsec, status));
                    match r {
                        Err(_) => fail!("C14", "panic_in_write", "write_blocks panicked"),
                        Ok(r) => {
                            if r != map_status(status) {
                                fail!("C14", "status_mapping_wrong", "write_blocks returned {:?} for device status {}", r, status);
                            }
                            let d = dev.borrow();
                            match d.log.get(log0) {
                                Some(rec) if d.log.len() == log0 + 1 => {
                                    if rec.ty != 1 || rec.sector != sector || rec.data_len != nsec * 512 || rec.data_hash != wh.finish() {
                                        fail!("C14", "write_request_wrong", "write_blocks(sector {:#x}, {} bytes) reached the device as {:?} (data hash expected {:#x})", sector, nsec * 512, rec, wh.finish());
                                    }
                                }
                                _ => fail!("C14", "request_count_wrong", "write_blocks produced {} requests", d.log.len() - log0),
                            }
                            for i in 0..nsec {
                                let now = d.read_sector(sector.wrapping_add(i as u64));
                                let want: &[u8] = if status == 0 { &buf[i * 512..(i + 1) * 512] } else { &before[i] };
                                if now != want {
                                    fail!("C14", "disk_content_wrong", "after write_blocks(sector {:#x}) with status {} sector +{} holds unexpected bytes", sector, status, i);
                                    break;
                                }
                            }
                        }
                    }
                }
                _ => {
                    if rng.bool() {
                        let r = catch_unwind(AssertUnwindSafe(|| blk.flush()));
                        c_ops[2] += 1;
                        hh.u64(0x30);
                        oplog.push(format!("flush() status {}", status));
                        let d = dev.borrow();
                        let sent = d.log.len() - log0;
                        let has = neg & BLK_FLUSH != 0;
                        match r {
                            Err(_) => fail!("C14", "panic_in_flush", "flush panicked"),
                            Ok(r) => {
                                if has {
                                    if sent != 1 || d.log[log0].ty != 4 {
                                        fail!("C14", "flush_request_wrong", "flush() with FLUSH negotiated sent {} requests {:?}", sent, d.log.get(log0));
                                    }
                                    if r != map_status(status) {
                                        fail!("C14", "status_mapping_wrong", "flush returned {:?} for device status {}", r, status);
                                    }
                                } else if sent != 0 || r != Ok(()) {
                                    fail!("C14", "flush_without_feature", "flush() without FLUSH negotiated sent {} requests and returned {:?}", sent, r);
                                }
                            }
                        }
                    } else {
                        let mut id = [0u8; 20];
                        let ids: [&[u8]; 3] = [b"verif-disk-0001\0\0\0\0\0", b"ABCDEFGHIJKLMNOPQRST", b"\0\0\0\0\0\0\0\0\0\0\0\0\0\0\0\0\0\0\0\0"];
                        let which = rng.below(3) as usize;
                        dev.borrow_mut().id_string.copy_from_slice(ids[which]);
                        let r = catch_unwind(AssertUnwindSafe(|| blk.device_id(&mut id)));
                        c_ops[3] += 1;
                        hh.u64(0x40);
                        oplog.push(format!("device_id() status {}", status));
                        match r {
                            Err(_) => fail!("C14", "panic_in_device_id", "device_id panicked"),
                            Ok(r) => {
                                let want_len = ids[which].iter().position(|b| *b == 0).unwrap_or(20);
                                match (r, status) {
                                    (Ok(n), 0) => {
                                        if n != want_len || id[..] != ids[which][..] {
                                            fail!("C14", "device_id_wrong", "device_id() = {} {:?}, device id is {:?}", n, id, ids[which]);
                                        }
                                    }
                                    (r, s) => {
                                        if r.map(|_| ()) != map_status(s) {
                                            fail!("C14", "status_mapping_wrong", "device_id returned {:?} for device status {}", r, s);
                                        }
                                    }
                                }
                                let d = dev.borrow();
                                if d.log.len() != log0 + 1 || d.log[log0].ty != 8 {
                                    fail!("C14", "request_header_wrong", "device_id() reached the device as {:?}", d.log.get(log0));
                                }
                            }
                        }
                    }
                }
            }
            out.requests += 1;
        } else if op < 80 {
            // submit non-blocking requests (sometimes a burst up to a queue-full: 16 descriptors, 3 per request when direct)
            dev.borrow_mut().auto_complete = false;
            let burst = if rng.chance(1, 8) { 20 } else { 1 };
            for _ in 0..burst {
            let full_before = c_ops[6];
            let sector = pick_sector(&mut rng);
            let nsec = rng.range(1, 4) as usize;
            let is_read = rng.bool();
            let mut nb = Nb { token: 0, req: Box::new(BlkReq::default()), resp: Box::new(BlkResp::default()), buf: vec![0x77u8; nsec * 512], is_read, sector, write_hash: 0 };
            if !is_read {
                rng.fill(&mut nb.buf);
                let mut wh = Hash64::new();
                wh.bytes(&nb.buf);
                nb.write_hash = wh.finish();
            }
            // SAFETY: req/buf/resp are heap allocations kept in `nbs` untouched until the matching complete_* call.
            let r = catch_unwind(AssertUnwindSafe(|| unsafe {
                if is_read { blk.read_blocks_nb(sector as usize, &mut nb.req, &mut nb.buf, &mut nb.resp) } else { blk.write_blocks_nb(sector as usize, &mut nb.req, &nb.buf, &mut nb.resp) }
            }));
            c_ops[4] += 1;
            hh.u64(0x50 | (is_read as u64) << 4 | sector << 8);
            oplog.push(format!("{}_blocks_nb(sector {:#x}, {} sectors)", if is_read { "read" } else { "write" }, sector, nsec));
            match r {
                Err(_) => fail!("C14", "panic_in_nb_submit", "non-blocking submit panicked"),
                Ok(Ok(tok)) => {
                    nb.token = tok;
                    if nbs.iter().any(|n| n.token == tok) {
                        fail!("C14", "token_reused", "token {} handed out twice", tok);
                    }
                    nbs.push(nb);
                    out.nb_max_outstanding = out.nb_max_outstanding.max(nbs.len() as u64);
                }
                Ok(Err(Error::QueueFull)) => {
                    c_ops[6] += 1;
                    let cap = if neg & devsim::F_INDIRECT != 0 { 16 } else { 5 };
                    if nbs.len() < cap {
                        fail!("C14", "queue_full_too_early", "QueueFull with only {} requests outstanding (capacity {})", nbs.len(), cap);
                    }
                }
                Ok(Err(e)) => fail!("C14", "nb_submit_error", "non-blocking submit failed with {:?}", e),
            }
            dev.borrow_mut().step();
            if c_ops[6] != full_before || !out.viol.is_empty() {
                break;
            }
            }
        } else if !nbs.is_empty() && op < 95 {
            // device completes one held request (any order), driver consumes whatever is at the head of the used ring
            dev.borrow_mut().auto_complete = false;
            dev.borrow_mut().step();
            let held = dev.borrow().held();
            if held > 0 {
                let i = rng.below(held as u64) as usize;
                if i != 0 {
                    out.ooo = true;
                }
                let status = match rng.below(6) {
                    0 => 1,
                    1 => 2,
                    _ => 0,
                };
                dev.borrow_mut().status_plan = vec![status];
                let rec = dev.borrow_mut().complete_held(i);
                let Some(rec) = rec else { continue };
                let peek = blk.peek_used();
                if peek != Some(rec.head) {
                    fail!("C14", "peek_used_wrong", "peek_used() = {:?} after the device completed head {}", peek, rec.head);
                    continue;
                }
                let Some(pos) = nbs.iter().position(|n| n.token == rec.head) else {
                    fail!("C14", "unknown_completion", "device completed head {} which is not an outstanding token", rec.head);
                    continue;
                };
                // a wrong token must be refused
                if nbs.len() > 1 && rng.chance(1, 4) {
                    let other = (pos + 1) % nbs.len();
                    let o = &mut nbs[other];
                    // SAFETY: same buffers as submitted under that token.
                    let r = unsafe { if o.is_read { blk.complete_read_blocks(o.token, &o.req, &mut o.buf, &mut o.resp) } else { blk.complete_write_blocks(o.token, &o.req, &o.buf, &mut o.resp) } };
                    if r != Err(Error::WrongToken) {
                        fail!("C14", "wrong_token_accepted", "complete_* with token {} (head of used ring is {}) returned {:?}", o.token, rec.head, r);
                    }
                }
                let mut nb = nbs.remove(pos);
                // SAFETY: same buffers as submitted under this token.
                let r = catch_unwind(AssertUnwindSafe(|| unsafe { if nb.is_read { blk.complete_read_blocks(nb.token, &nb.req, &mut nb.buf, &mut nb.resp) } else { blk.complete_write_blocks(nb.token, &nb.req, &nb.buf, &mut nb.resp) } }));
                c_ops[5] += 1;
                hh.u64(0x60 | (i as u64) << 8);
                oplog.push(format!("device completes held[{}] (head {}) status {}; complete_{}_blocks", i, rec.head, status, if nb.is_read { "read" } else { "write" }));
                match r {
                    Err(_) => fail!("C14", "panic_in_nb_complete", "complete_* panicked"),
                    Ok(r) => {
                        if r != map_status(status) {
                            fail!("C14", "status_mapping_wrong", "complete_* returned {:?} for device status {} of its own request", r, status);
                        }
                        if rec.sector != nb.sector || rec.ty != if nb.is_read { 0 } else { 1 } || rec.data_len != nb.buf.len() {
                            fail!("C14", "request_header_wrong", "nb request (sector {:#x}, read={}) reached the device as {:?}", nb.sector, nb.is_read, rec);
                        }
                        if nb.is_read && status == 0 {
                            let d = dev.borrow();
                            // the device served this read when it completed it; compare with what it wrote (hash of payload)
                            let mut h = Hash64::new();
                            h.bytes(&nb.buf);
                            if h.finish() != rec.data_hash {
                                let _ = &d;
                                fail!("C14", "read_data_wrong", "completion of token {} delivered other bytes than the device wrote for that request", nb.token);
                            }
                        }
                        if !nb.is_read && rec.data_hash != nb.write_hash {
                            fail!("C14", "write_request_wrong", "non-blocking write of token {} reached the device with other bytes", nb.token);
                        }
                    }
                }
                out.requests += 1;
            }
        } else {
            // interrupt plumbing
            let pending = rig.st.borrow().isr;
            let r = blk.ack_interrupt();
            if r.bits() != pending & 3 {
                fail!("C14", "ack_interrupt_wrong", "ack_interrupt() = {:#x} with {:#x} pending", r.bits(), pending);
            }
            if rng.bool() {
                blk.enable_interrupts();
            } else {
                blk.disable_interrupts();
            }
            c_ops[7] += 1;
        }
    }
    // drain outstanding non-blocking requests so that the drop below is a quiescent one
    let mut guard = 0;
    while !nbs.is_empty() && out.viol.is_empty() && dev.borrow().viol.is_empty() && guard < 100 {
        guard += 1;
        dev.borrow_mut().auto_complete = false;
        dev.borrow_mut().step();
        if dev.borrow().held() == 0 {
            break;
        }
        let rec = dev.borrow_mut().complete_held(0);
        if let Some(rec) = rec {
            if let Some(pos) = nbs.iter().position(|n| n.token == rec.head) {
                let mut nb = nbs.remove(pos);
                // SAFETY: same buffers as submitted under this token.
                let _ = unsafe { if nb.is_read { blk.complete_read_blocks(nb.token, &nb.req, &mut nb.buf, &mut nb.resp) } else { blk.complete_write_blocks(nb.token, &nb.req, &nb.buf, &mut nb.resp) } };
            }
        }
    }
    hooks::clear();
    let drained = nbs.is_empty();
    let _ = catch_unwind(AssertUnwindSafe(move || drop(blk)));
    drop(nbs);
    for (r, d) in rig.take_register_violations() {
        out.viol.push(DViol { prop: if rig.kind == TKind::Pci || rig.kind == TKind::SomePci { "C11" } else { "C10" }, rule: r, detail: d });
    }
    for v in mem::with(|l| l.take_violations()) {
        out.viol.push(DViol { prop: "C04", rule: v.rule, detail: v.detail });
    }
    if drained && out.viol.is_empty() && mem::with(|l| l.active_shares()) != 0 {
        fail!("C04", "share_leaked", "buffers still shared after every block request completed");
    }
    out.viol.extend(dev.borrow().viol.iter().cloned());
    for v in out.viol.iter_mut() {
        v.detail = format!("{} [transport {} policy {:?} features {:#x} case {}]", v.detail, kind.name(), policy, neg, case);
    }
    out.hash = hh.finish();
    out.counters = vec![("blocking_reads", c_ops[0]), ("blocking_writes", c_ops[1]), ("flushes", c_ops[2]), ("device_id_queries", c_ops[3]), ("nb_submissions", c_ops[4]), ("nb_completions", c_ops[5]), ("nb_queue_full", c_ops[6]), ("interrupt_ops", c_ops[7]), ("chains_parsed_by_reference_disk", dev.borrow().log.len() as u64), ("indirect_chains", dev.borrow().q.as_ref().map(|q| q.indirect_seen).unwrap_or(0))];
    if want_sample {
        out.sample = Some(J::obj().with("case", J::u(case)).with("transport", J::s(kind.name())).with("policy", J::s(format!("{:?}", policy))).with("negotiated_features", J::s(format!("{:#x}", neg))).with("capacity", J::s(format!("{}", capacity))).with("first_operations", J::arr(oplog.iter().take(12).map(|s| J::s(s.clone())))));
    }
    mmio_bus_reset();
    out
}

fn mmio_bus_reset() {
    crate::mmio_bus::reset();
}

pub fn run(args: &Args, sh: &mut Shard) {
    // under Miri: model transports only (see xport_any::set_model_only), tiny workloads
    crate::xport_any::set_model_only(args.is_miri());
    let steps = if args.is_miri() { 25 } else if args.thorough() { 600 } else { 300 };
    if let Some(r) = &args.replay {
        let case = r.get("case").and_then(|x| x.as_u64()).unwrap_or(0);
        let o = one_case(case, args.seed, steps, true);
        println!("REPLAY case {}: {:#?} sample {:?}", case, o.viol, o.sample.map(|s| s.to_string()));
        for v in o.viol {
            sh.violation(Violation { prop: v.prop.into(), signature: format!("{}/{}", v.prop, v.rule), detail: v.detail, replay: r.clone() });
        }
        sh.evaluations = 1;
        return;
    }
    let n = if args.is_miri() { 48 } else { args.scaled(if args.thorough() { 160_000 } else { 8_000 }) };
    let mut case = args.shard;
    while case < n {
        let o = one_case(case, args.seed, steps, sh.want_sample());
        sh.evaluations += 1;
        for (k, v) in &o.counters {
            sh.inc(k, *v);
        }
        sh.max("max_nb_outstanding", o.nb_max_outstanding);
        if o.requests > 0 && o.nb_max_outstanding >= 2 {
            sh.nontrivial.insert(o.hash);
        }
        if o.ooo {
            sh.inc("cases_with_out_of_order_completion", 1);
        }
        if let Some(s) = o.sample {
            if o.nb_max_outstanding >= 2 {
                sh.sample(s);
            }
        }
        for v in o.viol {
            sh.violation(Violation { prop: v.prop.into(), signature: format!("{}/{}", v.prop, v.rule), detail: v.detail, replay: J::obj().with("case", J::u(case)).with("build", J::s(args.build.clone())) });
        }
        if sh.violations.len() >= 8 {
            return;
        }
        case += args.nshards;
    }
}
