//! C15 — console bytes are delivered exactly once and in order in both directions.
use super::Args;
use crate::devsim::{self, DViol, Personality, Policy, QSrv};
use crate::hooks::{self, DmaAccess};
use crate::json::J;
use crate::mem::{self, HalMode, LedgerHal};
use crate::report::{Shard, Violation};
use crate::rng::{Hash64, Rng};
use crate::xport_any::{self, AnyT, Rig, TKind};
use embedded_io::{BufRead, Read, ReadReady, Write};
use std::cell::RefCell;
use std::panic::{AssertUnwindSafe, catch_unwind};
use std::rc::Rc;
use virtio_drivers::device::console::VirtIOConsole;
use virtio_drivers::transport::DeviceType;

/// Byte k of the device's stream: a position-coded 16-bit counter spread over two bytes.
pub fn stream_byte(k: u64) -> u8 {
    let w = ((k / 2) as u16).wrapping_mul(0x9e37).wrapping_add(0x1234);
    if k % 2 == 0 { w as u8 } else { (w >> 8) as u8 }
}

fn nv(v: &mut Vec<DViol>, prop: &'static str, rule: &'static str, detail: String) {
    v.push(DViol { prop, rule, detail });
}

pub struct RefConsole {
    st: Rc<RefCell<crate::xport_model::ModelState>>,
    pub rx: Option<QSrv>,
    pub tx: Option<QSrv>,
    policy: Policy,
    pub stream_pos: u64,
    /// bytes the harness has consumed through the public API (shadow of the driver-side position)
    pub consumed: u64,
    pub tx_log: Vec<Vec<u8>>,
    pub viol: Vec<DViol>,
    rng: Rng,
    /// the device produces data whenever it is stepped from a busy-wait loop
    pub fill_when_spinning: bool,
    pub fill_in_load_hooks: bool,
    pub chunks: u64,
    pub max_chunk: usize,
    pub rx_chains_seen: u64,
    pub fills_in_spin: u64,
    pub fills_in_hook: u64,
    pub in_spin: bool,
}

impl RefConsole {
    pub fn new(rig: &Rig, policy: Policy, seed: u64) -> RefConsole {
        RefConsole { st: rig.st.clone(), rx: None, tx: None, policy, stream_pos: 0, consumed: 0, tx_log: vec![], viol: vec![], rng: Rng::new(seed), fill_when_spinning: true, fill_in_load_hooks: true, chunks: 0, max_chunk: 4096, rx_chains_seen: 0, fills_in_spin: 0, fills_in_hook: 0, in_spin: false }
    }
    fn v(&mut self, prop: &'static str, rule: &'static str, detail: String) {
        if self.viol.len() < 8 {
            self.viol.push(DViol { prop, rule, detail });
        }
    }
    fn ensure(&mut self) {
        let st = self.st.borrow();
        if st.status & 4 == 0 {
            return;
        }
        if self.rx.is_none() {
            self.rx = QSrv::new(&st, 0, self.policy);
        }
        if self.tx.is_none() {
            self.tx = QSrv::new(&st, 1, self.policy);
        }
    }
    /// Look at both queues (subject to the notification policy) and account for new chains.
    pub fn observe(&mut self) {
        let mut newv: Vec<DViol> = vec![];
        self.ensure();
        let notes = self.st.borrow_mut().take_notifications();
        for (qi, q) in [(0u16, &mut self.rx), (1u16, &mut self.tx)] {
            if let Some(q) = q.as_mut() {
                if notes.contains(&qi) {
                    q.notified = true;
                }
            }
        }
        // rx: at most one chain may ever be outstanding, and only when everything delivered was consumed
        if let Some(q) = self.rx.as_mut() {
            let pend = q.pending();
            if pend > 0 {
                let outstanding = pend as usize + q.held.len();
                if outstanding > 1 {
                    let d = format!("{} receive chains outstanding at once", outstanding);
                    nv(&mut newv, "C15", "two_receive_buffers_outstanding", d);
                }
                if self.stream_pos != self.consumed {
                    let d = format!("a new receive buffer was posted while {} delivered bytes are still unconsumed (delivered {}, consumed {})", self.stream_pos - self.consumed, self.stream_pos, self.consumed);
                    nv(&mut newv, "C15", "receive_buffer_reposted_before_data_consumed", d);
                }
                if q.may_look() {
                    match q.fetch_all() {
                        Ok(n) => self.rx_chains_seen += n as u64,
                        Err(e) => nv(&mut newv, "C01", "chain_malformed", e),
                    }
                    if let Some(q) = self.rx.as_ref() {
                        if let Some(ch) = q.held.back() {
                            if ch.readable_len() != 0 || ch.writable_len() != 4096 {
                                let d = format!("receive chain is {:?}", ch.elems);
                                nv(&mut newv, "C15", "receive_chain_shape", d);
                            }
                        }
                    }
                } else if self.in_spin {
                    nv(&mut newv, "C05", "wait_without_notification", "console waits for input on a serve-on-notify device that was not told about the receive buffer".into());
                }
            }
        }
        // tx: serve immediately
        if let Some(q) = self.tx.as_mut() {
            if q.pending() > 0 {
                if q.may_look() {
                    if let Err(e) = q.fetch_all() {
                        nv(&mut newv, "C01", "chain_malformed", e);
                    }
                } else if self.in_spin {
                    nv(&mut newv, "C05", "wait_without_notification", "console send waits on a serve-on-notify device that was not notified".into());
                }
            }
            while let Some(q) = self.tx.as_mut() {
                let Some(ch) = q.held.front().cloned() else { break };
                if ch.writable_len() != 0 {
                    nv(&mut newv, "C15", "transmit_chain_shape", format!("transmit chain has a writable part: {:?}", ch.elems));
                }
                let q = self.tx.as_mut().unwrap();
                match q.dev.read_payload(&ch) {
                    Ok(b) => self.tx_log.push(b),
                    Err(e) => nv(&mut newv, "C04", "device_cannot_read_buffer", e),
                }
                let q = self.tx.as_mut().unwrap();
                let _ = q.complete_at(0, &[], Some(0));
            }
        }
        for v in newv {
            if self.viol.len() < 8 {
                self.viol.push(v);
            }
        }
    }
    pub fn can_fill(&self) -> bool {
        self.rx.as_ref().is_some_and(|q| !q.held.is_empty())
    }
    /// Deliver the next `len` stream bytes into the posted receive buffer.
    pub fn fill(&mut self, len: usize) -> bool {
        if !self.can_fill() {
            return false;
        }
        let len = len.clamp(1, self.max_chunk);
        let data: Vec<u8> = (0..len as u64).map(|i| stream_byte(self.stream_pos + i)).collect();
        let q = self.rx.as_mut().unwrap();
        if let Err(e) = q.complete_at(0, &data, Some(len as u32)) {
            self.v("C04", "device_cannot_write_buffer", e);
            return false;
        }
        self.stream_pos += len as u64;
        self.chunks += 1;
        if q.wants_interrupt() {
            self.st.borrow_mut().isr |= 1;
        }
        true
    }
    fn rand_chunk(&mut self) -> usize {
        match self.rng.below(8) {
            0 => 1,
            1 => 4096,
            2 => 2,
            3 => self.rng.range(4000, 4096) as usize,
            _ => self.rng.range(1, 300) as usize,
        }
    }
    pub fn on_dma(&mut self, kind: DmaAccess, q: u16) {
        if q == 0 && self.fill_in_load_hooks && matches!(kind, DmaAccess::LoadUsedIdx) && self.rng.chance(1, 6) {
            self.observe();
            if self.can_fill() {
                let n = self.rand_chunk();
                if self.fill(n) {
                    self.fills_in_hook += 1;
                }
            }
        }
    }
}

impl Personality for RefConsole {
    fn step(&mut self) {
        self.in_spin = true;
        self.observe();
        if self.fill_when_spinning && self.can_fill() {
            let n = self.rand_chunk();
            if self.fill(n) {
                self.fills_in_spin += 1;
            }
        }
        self.in_spin = false;
    }
    fn fatal(&self) -> bool {
        self.viol.iter().any(|v| v.rule == "wait_without_notification" || v.rule == "chain_malformed")
    }
}

pub struct CaseOut {
    pub viol: Vec<DViol>,
    pub hash: u64,
    pub counters: Vec<(&'static str, u64)>,
    pub sample: Option<J>,
    pub bytes: u64,
}

pub const LONG_TX: u64 = 1 << 62;

pub fn one_case(case: u64, seed: u64, steps: usize, want_sample: bool) -> CaseOut {
    let mut rng = Rng::derive(seed, 0xC15, case, 0);
    mem::reset(HalMode::Bounce);
    hooks::clear();
    let kind = *rng.pick(&[TKind::Model, TKind::Model, TKind::MmioModern, TKind::MmioLegacy, TKind::Pci, TKind::ModelNoUnset]);
    // long-transmit mode (seed S133): > 32768 single-byte transmissions on one console, so that the transmit
    // available index passes 0x8000 and wraps while the device serves on notification only; every combination of
    // the two ring features is taken in turn
    let long_tx = case & LONG_TX != 0;
    let mut x = case;
    let fbits = if long_tx { case & 3 } else { crate::rng::splitmix64(&mut x) };
    let mut offered = devsim::F_VERSION_1 | 1 | 4;
    if fbits & 1 != 0 {
        offered |= devsim::F_INDIRECT;
    }
    if fbits & 2 != 0 {
        offered |= devsim::F_EVENT_IDX;
    }
    if kind.legacy() {
        offered &= !devsim::F_VERSION_1;
    }
    let policy = if long_tx { Policy::OnNotify } else { *rng.pick(&[Policy::OnNotify, Policy::Polling, Policy::Eager]) };
    let steps = if long_tx { 70_000 } else { steps };
    let mut cfg = vec![0u8; 12];
    cfg[0] = 80;
    cfg[2] = 25;
    let (rig, t) = xport_any::build(kind, DeviceType::Console, offered, cfg);
    let dev = Rc::new(RefCell::new(RefConsole::new(&rig, policy, rng.next())));
    devsim::install_spin(&dev);
    let d2 = dev.clone();
    hooks::set_dma(move |k, q| d2.borrow_mut().on_dma(k, q));
    let mut out = CaseOut { viol: vec![], hash: 0, counters: vec![], sample: None, bytes: 0 };
    let mut hh = Hash64::new();
    hh.u64(fbits & 3);
    hh.u64(kind as u64);
    hh.u64(policy as u64);
    let mut oplog: Vec<String> = vec![];
    let mut cnt = [0u64; 12];
    macro_rules! fail {
        ($prop:expr, $rule:expr, $($arg:tt)*) => {{
            out.viol.push(DViol { prop: $prop, rule: $rule, detail: format!($($arg)*) });
        }};
    }
    let mut con = match catch_unwind(AssertUnwindSafe(|| VirtIOConsole::<LedgerHal, AnyT>::new(t))) {
        Ok(Ok(c)) => c,
        Ok(Err(e)) => {
            fail!("C15", "construction_failed", "VirtIOConsole::new failed: {:?}", e);
            return out;
        }
        Err(_) => {
            fail!("C15", "construction_panicked", "VirtIOConsole::new panicked");
            return out;
        }
    };
    dev.borrow_mut().observe();
    // checks a returned byte run against the stream and advances the shadow position
    let check_bytes = |dev: &Rc<RefCell<RefConsole>>, got: &[u8], what: &str, viol: &mut Vec<DViol>| {
        let mut d = dev.borrow_mut();
        for (i, b) in got.iter().enumerate() {
            let k = d.consumed + i as u64;
            if k >= d.stream_pos {
                viol.push(DViol { prop: "C15", rule: "byte_never_sent", detail: format!("{} returned {} bytes but only {} were delivered beyond the consumed position", what, got.len(), d.stream_pos - d.consumed) });
                break;
            }
            if *b != stream_byte(k) {
                viol.push(DViol { prop: "C15", rule: "stream_mismatch", detail: format!("{}: byte #{} of the received stream is {:#04x}, the device sent {:#04x} (loss, duplication or reordering)", what, k, b, stream_byte(k)) });
                break;
            }
        }
        d.consumed += got.len() as u64;
    };
    for _ in 0..steps {
        if !out.viol.is_empty() || !dev.borrow().viol.is_empty() {
            break;
        }
        let op = if long_tx { 99 } else { rng.below(100) };
        match op {
            0..=14 => {
                // device delivers a chunk at an API boundary
                let mut d = dev.borrow_mut();
                d.observe();
                let n = d.rand_chunk();
                if d.fill(n) {
                    cnt[0] += 1;
                    hh.u64(0x01 | (n as u64) << 8);
                    oplog.push(format!("device fills {} bytes", n));
                }
            }
            15..=24 => {
                let avail = { let d = dev.borrow(); d.stream_pos - d.consumed };
                let r = catch_unwind(AssertUnwindSafe(|| con.recv(false)));
                cnt[1] += 1;
                hh.u64(0x02);
                match r {
                    Ok(Ok(Some(b))) => {
                        let d = dev.borrow();
                        if d.stream_pos == d.consumed || b != stream_byte(d.consumed) {
                            fail!("C15", "peek_disagrees_with_stream", "recv(false) = {:#04x} but the next unconsumed byte is {:?}", b, if d.stream_pos > d.consumed { Some(stream_byte(d.consumed)) } else { None });
                        }
                    }
                    Ok(Ok(None)) => {
                        if avail > 0 {
                            fail!("C15", "data_not_visible", "recv(false) = None although {} delivered bytes are unconsumed", avail);
                        }
                    }
                    Ok(Err(e)) => fail!("C15", "recv_error", "recv(false) failed: {:?}", e),
                    Err(_) => fail!("C15", "panic_in_recv", "recv(false) panicked"),
                }
                oplog.push("recv(false)".into());
            }
            25..=39 => {
                let avail = { let d = dev.borrow(); d.stream_pos - d.consumed };
                let r = catch_unwind(AssertUnwindSafe(|| con.recv(true)));
                cnt[2] += 1;
                hh.u64(0x03);
                match r {
                    Ok(Ok(Some(b))) => check_bytes(&dev, &[b], "recv(true)", &mut out.viol),
                    Ok(Ok(None)) => {
                        // bytes delivered inside this call's own load hooks may or may not be seen yet
                        if avail > 0 {
                            fail!("C15", "data_not_visible", "recv(true) = None although {} delivered bytes were unconsumed before the call", avail);
                        }
                    }
                    Ok(Err(e)) => fail!("C15", "recv_error", "recv(true) failed: {:?}", e),
                    Err(_) => fail!("C15", "panic_in_recv", "recv(true) panicked"),
                }
                oplog.push("recv(true)".into());
            }
            40..=54 => {
                let n = match rng.below(6) {
                    0 => 0,
                    1 => 1,
                    2 => 5000,
                    3 => 4096,
                    _ => rng.range(1, 600) as usize,
                };
                let mut buf = vec![0u8; n];
                let before = { let d = dev.borrow(); d.stream_pos - d.consumed };
                let r = catch_unwind(AssertUnwindSafe(|| con.read(&mut buf)));
                cnt[3] += 1;
                hh.u64(0x04 | (n as u64) << 8);
                match r {
                    Ok(Ok(k)) => {
                        if k > n || (n > 0 && k == 0) {
                            fail!("C15", "read_length_wrong", "read(buf of {}) returned {}", n, k);
                        } else {
                            if before > 0 && k as u64 != before.min(n as u64) && k as u64 > before {
                                // more than was available before is fine only if the device delivered meanwhile
                            }
                            check_bytes(&dev, &buf[..k], "read()", &mut out.viol);
                        }
                    }
                    Ok(Err(e)) => fail!("C15", "read_error", "read failed: {:?}", e),
                    Err(_) => {
                        let dv = dev.borrow().viol.clone();
                        if dv.is_empty() {
                            fail!("C15", "panic_in_read", "read({}) panicked", n)
                        }
                    }
                }
                oplog.push(format!("read({})", n));
            }
            55..=66 => {
                let r = catch_unwind(AssertUnwindSafe(|| con.fill_buf().map(|s| s.to_vec())));
                cnt[4] += 1;
                hh.u64(0x05);
                match r {
                    Ok(Ok(v)) => {
                        if v.is_empty() {
                            fail!("C15", "fill_buf_empty", "fill_buf() returned an empty slice");
                        } else {
                            let d = dev.borrow();
                            let ok = v.iter().enumerate().all(|(i, b)| d.consumed + (i as u64) < d.stream_pos && *b == stream_byte(d.consumed + i as u64));
                            drop(d);
                            if !ok {
                                fail!("C15", "stream_mismatch", "fill_buf() exposes bytes that are not the next unconsumed bytes of the stream");
                            } else {
                                let k = match rng.below(4) {
                                    0 => 0,
                                    1 => v.len(),
                                    _ => rng.below(v.len() as u64 + 1) as usize,
                                };
                                let rc = catch_unwind(AssertUnwindSafe(|| con.consume(k)));
                                if rc.is_err() {
                                    fail!("C15", "panic_in_consume", "consume({}) of {} panicked", k, v.len());
                                }
                                dev.borrow_mut().consumed += k as u64;
                                oplog.push(format!("fill_buf() -> {} bytes, consume({})", v.len(), k));
                            }
                        }
                    }
                    Ok(Err(e)) => fail!("C15", "read_error", "fill_buf failed: {:?}", e),
                    Err(_) => {
                        if dev.borrow().viol.is_empty() {
                            fail!("C15", "panic_in_fill_buf", "fill_buf panicked")
                        }
                    }
                }
            }
            67..=74 => {
                let avail = { let d = dev.borrow(); d.stream_pos - d.consumed };
                let r = catch_unwind(AssertUnwindSafe(|| con.read_ready()));
                cnt[5] += 1;
                hh.u64(0x06);
                match r {
                    Ok(Ok(b)) => {
                        let now = { let d = dev.borrow(); d.stream_pos - d.consumed };
                        if (avail > 0 && !b) || (now == 0 && b) {
                            fail!("C15", "read_ready_wrong", "read_ready() = {} with {} unconsumed delivered bytes before / {} after the call", b, avail, now);
                        }
                    }
                    Ok(Err(e)) => fail!("C15", "read_error", "read_ready failed: {:?}", e),
                    Err(_) => fail!("C15", "panic_in_read_ready", "read_ready panicked"),
                }
                oplog.push("read_ready()".into());
            }
            75..=80 => {
                let pending = rig.st.borrow().isr & 1 != 0;
                let r = catch_unwind(AssertUnwindSafe(|| con.ack_interrupt()));
                cnt[6] += 1;
                hh.u64(0x07);
                match r {
                    Ok(Ok(b)) => {
                        if b && !pending {
                            fail!("C15", "ack_interrupt_wrong", "ack_interrupt() = true without a pending queue interrupt");
                        }
                    }
                    Ok(Err(e)) => fail!("C15", "read_error", "ack_interrupt failed: {:?}", e),
                    Err(_) => fail!("C15", "panic_in_ack_interrupt", "ack_interrupt panicked"),
                }
                oplog.push("ack_interrupt()".into());
            }
            _ => {
                // transmit: exactly the caller's bytes
                let n0 = dev.borrow().tx_log.len();
                let which = if long_tx { 0 } else { rng.below(3) };
                let len = match rng.below(8) {
                    0 => 1,
                    1 => 4096,
                    2 => *rng.pick(&[4095usize, 4097, 5000, 8192, 8193, 20000]),
                    _ => rng.range(1, 200) as usize,
                };
                let mut data = vec![0u8; if which == 0 { 1 } else { len }];
                rng.fill(&mut data);
                let r = catch_unwind(AssertUnwindSafe(|| match which {
                    0 => con.send(data[0]).map(|_| 1),
                    1 => con.send_bytes(&data).map(|_| data.len()),
                    _ => Write::write(&mut con, &data),
                }));
                cnt[7] += 1;
                hh.u64(0x08 | (data.len() as u64) << 8);
                match r {
                    Ok(Ok(k)) => {
                        let d = dev.borrow();
                        // embedded_io::Write::write may be partial (k <= len, k > 0); the other two send everything.
                        // However many chains the driver uses, the device must have received exactly the bytes reported as written.
                        let got: Vec<u8> = d.tx_log[n0..].iter().flat_map(|c| c.iter().copied()).collect();
                        let k_ok = if which == 2 { k >= 1 && k <= data.len() } else { k == data.len() };
                        if !k_ok || got != data[..k.min(data.len())] {
                            fail!("C15", "transmit_bytes_wrong", "send of {} bytes (api {}): reported {} written, transmit queue received {} bytes in {} chains, equal to the reported prefix: {}", data.len(), which, k, got.len(), d.tx_log.len() - n0, got == data[..k.min(data.len())]);
                        }
                    }
                    Ok(Err(e)) => fail!("C15", "send_error", "send failed: {:?}", e),
                    Err(_) => {
                        if dev.borrow().viol.is_empty() {
                            fail!("C15", "panic_in_send", "send panicked")
                        }
                    }
                }
                oplog.push(format!("send {} bytes (api {})", data.len(), which));
            }
        }
        dev.borrow_mut().observe();
    }
    // final drain through read(): everything delivered must come out, in order
    if out.viol.is_empty() && dev.borrow().viol.is_empty() {
        dev.borrow_mut().fill_when_spinning = false;
        dev.borrow_mut().fill_in_load_hooks = false;
        let mut guard = 0;
        loop {
            let (pos, cons) = { let d = dev.borrow(); (d.stream_pos, d.consumed) };
            if cons >= pos || guard > 64 {
                break;
            }
            guard += 1;
            let mut buf = vec![0u8; 4096];
            match catch_unwind(AssertUnwindSafe(|| con.read(&mut buf))) {
                Ok(Ok(k)) => check_bytes(&dev, &buf[..k], "final drain read()", &mut out.viol),
                _ => break,
            }
            if !out.viol.is_empty() {
                break;
            }
        }
        let d = dev.borrow();
        if out.viol.is_empty() && d.consumed != d.stream_pos {
            fail!("C15", "bytes_lost", "device delivered {} bytes, only {} could be read back", d.stream_pos, d.consumed);
        }
        cnt[8] += 1;
    }
    let neg = devsim::negotiated(&rig);
    hooks::clear();
    let _ = catch_unwind(AssertUnwindSafe(move || drop(con)));
    for (r, d) in rig.take_register_violations() {
        out.viol.push(DViol { prop: if rig.kind == TKind::Pci { "C11" } else { "C10" }, rule: r, detail: d });
    }
    for v in mem::with(|l| l.take_violations()) {
        out.viol.push(DViol { prop: "C04", rule: v.rule, detail: v.detail });
    }
    out.viol.extend(dev.borrow().viol.iter().cloned());
    for v in out.viol.iter_mut() {
        v.detail = format!("{} [transport {} policy {:?} features {:#x} case {}]", v.detail, kind.name(), policy, neg, case);
    }
    let d = dev.borrow();
    out.bytes = d.consumed;
    out.hash = hh.finish();
    out.counters = vec![("device_chunks_at_api_boundary", cnt[0]), ("recv_peek", cnt[1]), ("recv_pop", cnt[2]), ("read_calls", cnt[3]), ("fill_buf_calls", cnt[4]), ("read_ready_calls", cnt[5]), ("ack_interrupt_calls", cnt[6]), ("sends", cnt[7]), ("final_drains", cnt[8]), ("bytes_received_and_checked", d.consumed), ("device_chunks", d.chunks), ("chunks_delivered_inside_spin_hook", d.fills_in_spin), ("chunks_delivered_inside_load_hook", d.fills_in_hook), ("receive_chains_observed", d.rx_chains_seen), ("transmit_chains_checked", d.tx_log.len() as u64)];
    if want_sample {
        out.sample = Some(J::obj().with("case", J::u(case)).with("transport", J::s(kind.name())).with("policy", J::s(format!("{:?}", policy))).with("negotiated_features", J::s(format!("{:#x}", neg))).with("first_operations", J::arr(oplog.iter().take(14).map(|s| J::s(s.clone())))));
    }
    crate::mmio_bus::reset();
    out
}

pub fn run(args: &Args, sh: &mut Shard) {
    // under Miri: model transports only (see xport_any::set_model_only), tiny workloads
    crate::xport_any::set_model_only(args.is_miri());
    let steps = if args.is_miri() { 60 } else if args.thorough() { 2000 } else { 600 };
    if let Some(r) = &args.replay {
        let case = r.get("case").and_then(|x| x.as_u64()).unwrap_or(0);
        let o = one_case(case, args.seed, steps, true);
        println!("REPLAY case {}: {:#?} sample {:?}", case, o.viol, o.sample.map(|s| s.to_string()));
        for v in o.viol {
            sh.violation(Violation { prop: v.prop.into(), signature: format!("{}/{}", v.prop, v.rule), detail: v.detail, replay: r.clone() });
        }
        sh.evaluations = 1;
        return;
    }
    let n = if args.is_miri() { 48 } else { args.scaled(if args.thorough() { 100_000 } else { 6_000 }) };
    let mut case = args.shard;
    let mut long_done = args.is_miri();
    loop {
        if case >= n {
            if long_done {
                break;
            }
            // one long-transmit run per shard (feature combination = shard mod 4)
            long_done = true;
            case = LONG_TX | args.shard;
        }
        let o = one_case(case, args.seed, steps, sh.want_sample());
        sh.evaluations += 1;
        for (k, v) in &o.counters {
            sh.inc(k, *v);
        }
        if o.bytes > 0 {
            sh.nontrivial.insert(o.hash);
        }
        if let Some(s) = o.sample {
            sh.sample(s);
        }
        for v in o.viol {
            sh.violation(Violation { prop: v.prop.into(), signature: format!("{}/{}", v.prop, v.rule), detail: v.detail, replay: J::obj().with("case", J::u(case)).with("build", J::s(args.build.clone())) });
        }
        if sh.violations.len() >= 8 {
            return;
        }
        if case & LONG_TX != 0 {
            sh.inc("long_transmit_runs_over_index_wrap", 1);
            break;
        }
        case += args.nshards;
    }
}
