//! C16 — network frames pass unmodified; receive buffers are never lost or duplicated.
use super::Args;
use crate::devsim::{self, DViol, Personality, Policy, QSrv};
use crate::hooks;
use crate::json::J;
use crate::mem::{self, HalMode, LedgerHal};
use crate::report::{Shard, Violation};
use crate::rng::{Hash64, Rng};
use crate::xport_any::{self, AnyT, Rig, TKind};
use std::cell::RefCell;
use std::collections::HashMap;
use std::panic::{AssertUnwindSafe, catch_unwind};
use std::rc::Rc;
use virtio_drivers::Error;
use virtio_drivers::device::net::{RxBuffer, TxBuffer, VirtIONet, VirtIONetRaw};
use virtio_drivers::transport::DeviceType;

pub const NET_MAC: u64 = 1 << 5;
pub const NET_STATUS: u64 = 1 << 16;

pub fn frame_bytes(id: u64, len: usize) -> Vec<u8> {
    let mut r = Rng::new(id ^ 0xf4a3e);
    let mut v = vec![0u8; len];
    r.fill(&mut v);
    if len >= 8 {
        v[..8].copy_from_slice(&id.to_le_bytes());
    }
    v
}

pub struct RefNic {
    st: Rc<RefCell<crate::xport_model::ModelState>>,
    pub rx: Option<QSrv>,
    pub tx: Option<QSrv>,
    policy: Policy,
    pub viol: Vec<DViol>,
    pub tx_log: Vec<Vec<u8>>,
    /// complete tx chains as soon as they are seen
    pub tx_auto: bool,
    pub hdr: usize,
    pub next_frame: u64,
    /// head -> (frame id, frame len) for completed-but-unconsumed rx chains
    pub injected: HashMap<u16, (u64, usize)>,
    pub in_spin: bool,
    pub spin_inject: bool,
    rng: Rng,
    pub frames_injected: u64,
}

impl RefNic {
    pub fn new(rig: &Rig, policy: Policy, seed: u64) -> RefNic {
        RefNic { st: rig.st.clone(), rx: None, tx: None, policy, viol: vec![], tx_log: vec![], tx_auto: true, hdr: 12, next_frame: 1, injected: HashMap::new(), in_spin: false, spin_inject: false, rng: Rng::new(seed), frames_injected: 0 }
    }
    fn ensure(&mut self) {
        let st = self.st.borrow();
        if st.status & 4 == 0 {
            return;
        }
        if self.rx.is_none() {
            self.rx = QSrv::new(&st, 0, self.policy);
        }
        if self.tx.is_none() {
            self.tx = QSrv::new(&st, 1, self.policy);
        }
        self.hdr = if st.driver_features.unwrap_or(0) & devsim::F_VERSION_1 != 0 { 12 } else { 10 };
    }
    pub fn observe(&mut self) {
        self.ensure();
        let notes = self.st.borrow_mut().take_notifications();
        let mut nv: Vec<DViol> = vec![];
        for (qi, q) in [(0u16, &mut self.rx), (1u16, &mut self.tx)] {
            if let Some(q) = q.as_mut() {
                if notes.contains(&qi) {
                    q.notified = true;
                }
                if q.pending() > 0 {
                    if q.may_look() {
                        if let Err(e) = q.fetch_all() {
                            nv.push(DViol { prop: "C01", rule: "chain_malformed", detail: e });
                        }
                    } else if self.in_spin && (qi == 1 || self.spin_inject) {
                        nv.push(DViol { prop: "C05", rule: "wait_without_notification", detail: format!("network driver waits on queue {} of a serve-on-notify device that was not notified", qi) });
                    }
                }
            }
        }
        if self.tx_auto {
            while let Some(q) = self.tx.as_mut() {
                let Some(ch) = q.held.front().cloned() else { break };
                if ch.writable_len() != 0 {
                    nv.push(DViol { prop: "C16", rule: "transmit_chain_shape", detail: format!("transmit chain has a writable part: {:?}", ch.elems) });
                }
                match q.dev.read_payload(&ch) {
                    Ok(b) => self.tx_log.push(b),
                    Err(e) => nv.push(DViol { prop: "C04", rule: "device_cannot_read_buffer", detail: e }),
                }
                let total = ch.readable_len() as u32;
                let _ = q.complete_at(0, &[], Some(if self.rng.bool() { 0 } else { total }));
            }
        }
        for v in nv {
            if self.viol.len() < 8 {
                self.viol.push(v);
            }
        }
    }
    pub fn posted(&self) -> usize {
        self.rx.as_ref().map(|q| q.held.len() + q.pending() as usize).unwrap_or(0)
    }
    /// Inject one frame into the posted buffer at position `pick` (any order); returns (head, id, len).
    pub fn inject(&mut self, pick: usize, len_sel: u64) -> Option<(u16, u64, usize)> {
        let q = self.rx.as_mut()?;
        if q.held.is_empty() {
            return None;
        }
        let i = pick % q.held.len();
        let ch = q.held[i].clone();
        let cap = ch.writable_len();
        if ch.readable_len() != 0 || ch.elems.len() != 1 {
            self.viol.push(DViol { prop: "C16", rule: "receive_chain_shape", detail: format!("receive chain is {:?}", ch.elems) });
            return None;
        }
        let max = cap.saturating_sub(self.hdr);
        let len = match len_sel % 6 {
            0 => 0,
            1 => max,
            2 => 1,
            3 => max.min(1514),
            _ => ((len_sel >> 8) as usize) % (max + 1),
        };
        let id = self.next_frame;
        self.next_frame += 1;
        let mut data = vec![0u8; self.hdr];
        // arbitrary (but plausible) header contents
        data[0] = (len_sel >> 40) as u8 & 3;
        if self.hdr == 12 {
            data[10] = 1;
        }
        data.extend_from_slice(&frame_bytes(id, len));
        let total = data.len();
        match q.complete_at(i, &data, Some(total as u32)) {
            Ok(_) => {}
            Err(e) => {
                self.viol.push(DViol { prop: "C04", rule: "device_cannot_write_buffer", detail: e });
                return None;
            }
        }
        if q.wants_interrupt() {
            self.st.borrow_mut().isr |= 1;
        }
        self.injected.insert(ch.head, (id, len));
        self.frames_injected += 1;
        Some((ch.head, id, len))
    }
}

impl Personality for RefNic {
    fn step(&mut self) {
        self.in_spin = true;
        self.observe();
        if self.spin_inject && self.rx.as_ref().is_some_and(|q| !q.held.is_empty()) {
            let p = self.rng.next();
            self.inject(p as usize, p >> 16);
        }
        self.in_spin = false;
    }
    fn fatal(&self) -> bool {
        self.viol.iter().any(|v| v.rule == "wait_without_notification" || v.rule == "chain_malformed")
    }
}

pub struct CaseOut {
    pub viol: Vec<DViol>,
    pub hash: u64,
    pub counters: Vec<(&'static str, u64)>,
    pub sample: Option<J>,
    pub frames: u64,
}

fn net_config() -> Vec<u8> {
    vec![0x52, 0x54, 0x00, 0x12, 0x34, 0x56, 1, 0, 1, 0, 0xdc, 0x05]
}

fn distinct_active_share_addresses() -> bool {
    mem::with(|l| {
        let mut v: Vec<(usize, usize)> = l.shares.values().map(|s| (s.vaddr, s.len)).collect();
        v.sort();
        v.windows(2).all(|w| w[0].0 + w[0].1 <= w[1].0)
    })
}

fn case_generic<const QS: usize>(case: u64, seed: u64, steps: usize, want_sample: bool) -> CaseOut {
    let mut rng = Rng::derive(seed, 0xC16, case, 0);
    mem::reset(HalMode::Bounce);
    hooks::clear();
    let kind = *rng.pick(&[TKind::Model, TKind::Model, TKind::MmioModern, TKind::MmioLegacy, TKind::Pci, TKind::ModelLegacy]);
    let mut x = case;
    let fbits = crate::rng::splitmix64(&mut x);
    let mut offered = NET_MAC | NET_STATUS | (rng.next() & 0x0000_0000_00ee_ffdf & !(NET_MAC | NET_STATUS));
    if fbits & 1 != 0 {
        offered |= devsim::F_VERSION_1;
    }
    if fbits & 2 != 0 {
        offered |= devsim::F_INDIRECT;
    }
    if fbits & 4 != 0 {
        offered |= devsim::F_EVENT_IDX;
    }
    if kind == TKind::MmioLegacy {
        offered &= !devsim::F_VERSION_1;
    }
    let buffered = fbits & 8 != 0;
    let policy = *rng.pick(&[Policy::OnNotify, Policy::Polling, Policy::Eager]);
    let (rig, t) = xport_any::build(kind, DeviceType::Network, offered, net_config());
    let dev = Rc::new(RefCell::new(RefNic::new(&rig, policy, rng.next())));
    devsim::install_spin(&dev);
    let mut out = CaseOut { viol: vec![], hash: 0, counters: vec![], sample: None, frames: 0 };
    let mut hh = Hash64::new();
    hh.u64(fbits & 15);
    hh.u64(kind as u64 | (QS as u64) << 8 | (policy as u64) << 16);
    let mut oplog: Vec<String> = vec![];
    let mut cnt = [0u64; 10];
    macro_rules! fail {
        ($prop:expr, $rule:expr, $($arg:tt)*) => {{
            out.viol.push(DViol { prop: $prop, rule: $rule, detail: format!($($arg)*) });
        }};
    }
    let buf_len = *rng.pick(&[1528usize, 1536, 2048, 4096, 16384, 65528, 65535]);
    let expect_hdr = if offered & devsim::F_VERSION_1 != 0 { 12 } else { 10 };
    // expected transmit image of send(frame)
    let tx_image = |hdr: usize, frame: &[u8]| {
        let mut v = vec![0u8; hdr];
        v.extend_from_slice(frame);
        v
    };
    if buffered {
        let mut net = match catch_unwind(AssertUnwindSafe(|| VirtIONet::<LedgerHal, AnyT, QS>::new(t, buf_len))) {
            Ok(Ok(n)) => n,
            Ok(Err(e)) => {
                fail!("C16", "construction_failed", "VirtIONet::new failed: {:?}", e);
                return out;
            }
            Err(_) => {
                fail!("C16", "construction_panicked", "VirtIONet::new panicked");
                return out;
            }
        };
        dev.borrow_mut().observe();
        if net.mac_address() != [0x52, 0x54, 0x00, 0x12, 0x34, 0x56] {
            fail!("C16", "mac_wrong", "mac_address() = {:x?}", net.mac_address());
        }
        let mut owned: Vec<(RxBuffer, u64, usize)> = vec![]; // buffers in the caller's hands (frame id, len)
        let mut arrival: std::collections::VecDeque<u16> = std::collections::VecDeque::new(); // heads in used-ring order
        for _ in 0..steps {
            if !out.viol.is_empty() || !dev.borrow().viol.is_empty() {
                break;
            }
            // conservation at every quiescent point
            {
                let mut d = dev.borrow_mut();
                d.observe();
                let posted = d.posted();
                let total = posted + arrival.len() + owned.len();
                if total != QS {
                    fail!("C16", "receive_buffer_conservation", "posted {} + completed-unreceived {} + caller-owned {} != QUEUE_SIZE {}", posted, arrival.len(), owned.len(), QS);
                }
                cnt[6] += 1;
            }
            if !distinct_active_share_addresses() {
                fail!("C16", "buffer_posted_twice", "two active shares overlap: a buffer is posted to the device twice");
            }
            match rng.below(100) {
                0..=29 => {
                    // burst of arrivals in arbitrary buffer order
                    let burst = rng.range(1, QS as u64) as usize;
                    for _ in 0..burst {
                        let p = rng.next();
                        let r = dev.borrow_mut().inject(p as usize, p >> 16);
                        if let Some((head, id, len)) = r {
                            arrival.push_back(head);
                            oplog.push(format!("device injects frame #{} ({} bytes) into buffer {}", id, len, head));
                            hh.u64(0x1 | (len as u64) << 8);
                        }
                    }
                }
                30..=59 => {
                    let can = net.can_recv();
                    if can != !arrival.is_empty() {
                        fail!("C16", "can_recv_wrong", "can_recv() = {} with {} completed receive buffers pending", can, arrival.len());
                    }
                    let r = catch_unwind(AssertUnwindSafe(|| net.receive()));
                    cnt[0] += 1;
                    hh.u64(0x2);
                    match r {
                        Err(_) => fail!("C16", "panic_in_receive", "receive() panicked"),
                        Ok(Err(Error::NotReady)) if arrival.is_empty() => {}
                        Ok(Err(e)) => fail!("C16", "receive_error", "receive() = {:?} with {} frames pending", e, arrival.len()),
                        Ok(Ok(mut rb)) => {
                            let Some(head) = arrival.pop_front() else {
                                fail!("C16", "receive_without_frame", "receive() returned a buffer although no frame was delivered");
                                continue;
                            };
                            let (id, len) = dev.borrow_mut().injected.remove(&head).unwrap_or((0, 0));
                            if rb.packet_len() != len || rb.packet() != frame_bytes(id, len).as_slice() {
                                fail!("C16", "received_frame_wrong", "receive() returned packet_len {} (frame #{} has {} bytes); bytes equal: {}", rb.packet_len(), id, len, rb.packet() == frame_bytes(id, len).as_slice());
                            }
                            // the mutable view and the parsed header must describe the same frame
                            let want = frame_bytes(id, len);
                            let pm = catch_unwind(AssertUnwindSafe(|| {
                                let _ = rb.header();
                                rb.packet_mut().to_vec()
                            }));
                            match pm {
                                Ok(pm) if pm == want => {}
                                Ok(_) => fail!("C16", "received_frame_wrong", "RxBuffer::packet_mut() of frame #{} ({} bytes) differs from the frame the device wrote (header size {} negotiated)", id, len, expect_hdr),
                                Err(_) => fail!("C16", "received_frame_wrong", "RxBuffer::packet_mut()/header() panicked for frame #{} ({} bytes, header size {} negotiated)", id, len, expect_hdr),
                            }
                            if rb.as_bytes().len() < expect_hdr + len {
                                fail!("C16", "received_frame_wrong", "RxBuffer shorter than header + frame");
                            }
                            out.frames += 1;
                            oplog.push(format!("receive() -> frame #{} ({} bytes)", id, len));
                            owned.push((rb, id, len));
                        }
                    }
                }
                60..=79 => {
                    if !owned.is_empty() {
                        let i = rng.below(owned.len() as u64) as usize;
                        let (rb, _, _) = owned.swap_remove(i);
                        let r = catch_unwind(AssertUnwindSafe(|| net.recycle_rx_buffer(rb)));
                        cnt[1] += 1;
                        hh.u64(0x3 | (i as u64) << 8);
                        oplog.push(format!("recycle_rx_buffer(owned[{}])", i));
                        match r {
                            Ok(Ok(())) => {}
                            Ok(Err(e)) => fail!("C16", "recycle_error", "recycle_rx_buffer failed: {:?}", e),
                            Err(_) => fail!("C16", "panic_in_recycle", "recycle_rx_buffer panicked"),
                        }
                    }
                }
                _ => {
                    let len = match rng.below(5) {
                        0 => 0,
                        1 => 1514,
                        _ => rng.range(1, 3000) as usize,
                    };
                    let mut frame = vec![0u8; len];
                    rng.fill(&mut frame);
                    let n0 = dev.borrow().tx_log.len();
                    if !net.can_send() {
                        fail!("C16", "can_send_wrong", "can_send() = false with an idle transmit queue");
                    }
                    let r = catch_unwind(AssertUnwindSafe(|| {
                        let mut tb: TxBuffer = net.new_tx_buffer(len);
                        tb.packet_mut().copy_from_slice(&frame);
                        net.send(tb)
                    }));
                    cnt[2] += 1;
                    hh.u64(0x4 | (len as u64) << 8);
                    oplog.push(format!("send({} bytes)", len));
                    match r {
                        Ok(Ok(())) => {
                            let d = dev.borrow();
                            let want = tx_image(expect_hdr, &frame);
                            if d.tx_log.len() != n0 + 1 || d.tx_log[n0] != want {
                                fail!("C16", "transmitted_frame_wrong", "send of a {}-byte frame put {} chains on the transmit queue; first has {} bytes (expected {}-byte zero header + frame = {}), equal: {}", len, d.tx_log.len() - n0, d.tx_log.get(n0).map(|x| x.len()).unwrap_or(0), expect_hdr, want.len(), d.tx_log.get(n0).map(|x| *x == want).unwrap_or(false));
                            }
                        }
                        Ok(Err(e)) => fail!("C16", "send_error", "send failed: {:?}", e),
                        Err(_) => {
                            if dev.borrow().viol.is_empty() {
                                fail!("C16", "panic_in_send", "send panicked")
                            }
                        }
                    }
                }
            }
        }
        // recycle everything: the number of posted buffers must return to QUEUE_SIZE
        if out.viol.is_empty() && dev.borrow().viol.is_empty() {
            while net.can_recv() {
                match net.receive() {
                    Ok(rb) => {
                        arrival.pop_front();
                        owned.push((rb, 0, 0));
                    }
                    Err(_) => break,
                }
            }
            for (rb, _, _) in owned.drain(..) {
                let _ = net.recycle_rx_buffer(rb);
            }
            let mut d = dev.borrow_mut();
            d.observe();
            if d.posted() != QS {
                fail!("C16", "receive_buffer_conservation", "after recycling every buffer {} are posted, QUEUE_SIZE is {}", d.posted(), QS);
            }
            cnt[7] += 1;
        }
        hooks::clear();
        let _ = catch_unwind(AssertUnwindSafe(move || drop(net)));
    } else {
        let mut net = match catch_unwind(AssertUnwindSafe(|| VirtIONetRaw::<LedgerHal, AnyT, QS>::new(t))) {
            Ok(Ok(n)) => n,
            Ok(Err(e)) => {
                fail!("C16", "construction_failed", "VirtIONetRaw::new failed: {:?}", e);
                return out;
            }
            Err(_) => {
                fail!("C16", "construction_panicked", "VirtIONetRaw::new panicked");
                return out;
            }
        };
        dev.borrow_mut().observe();
        let rx_len = *rng.pick(&[1526usize, 1600, 4096, 9000]);
        // caller-owned receive buffers: id -> (buffer, token if posted)
        let mut bufs: Vec<(Vec<u8>, Option<u16>)> = (0..QS).map(|_| (vec![0u8; rx_len], None)).collect();
        let mut txs: Vec<(u16, Vec<u8>)> = vec![];
        let mut arrival: std::collections::VecDeque<u16> = std::collections::VecDeque::new();
        for _ in 0..steps {
            if !out.viol.is_empty() || !dev.borrow().viol.is_empty() {
                break;
            }
            {
                let mut d = dev.borrow_mut();
                d.observe();
                let posted_model = bufs.iter().filter(|b| b.1.is_some()).count();
                if d.posted() + arrival.len() != posted_model {
                    fail!("C16", "receive_buffer_conservation", "device sees {} posted + {} completed buffers, caller posted {}", d.posted(), arrival.len(), posted_model);
                }
                cnt[6] += 1;
            }
            match rng.below(100) {
                0..=19 => {
                    if let Some(i) = bufs.iter().position(|b| b.1.is_none()) {
                        let b = &mut bufs[i];
                        // SAFETY: the buffer stays in `bufs` untouched until receive_complete for its token.
                        let r = catch_unwind(AssertUnwindSafe(|| unsafe { net.receive_begin(&mut b.0) }));
                        cnt[3] += 1;
                        hh.u64(0x5);
                        match r {
                            Ok(Ok(tok)) => {
                                if bufs.iter().any(|x| x.1 == Some(tok)) {
                                    fail!("C16", "token_reused", "receive_begin returned token {} twice", tok);
                                }
                                bufs[i].1 = Some(tok);
                                oplog.push(format!("receive_begin(buf {}) -> token {}", i, tok));
                            }
                            Ok(Err(e)) => fail!("C16", "receive_begin_error", "receive_begin failed: {:?}", e),
                            Err(_) => fail!("C16", "panic_in_receive_begin", "receive_begin panicked"),
                        }
                    }
                }
                20..=39 => {
                    let p = rng.next();
                    let r = dev.borrow_mut().inject(p as usize, p >> 16);
                    if let Some((head, id, len)) = r {
                        arrival.push_back(head);
                        oplog.push(format!("device injects frame #{} ({} bytes) into buffer with token {}", id, len, head));
                        hh.u64(0x1 | (len as u64) << 8);
                    }
                }
                40..=64 => {
                    let pr = net.poll_receive();
                    if pr != arrival.front().copied() {
                        fail!("C16", "poll_receive_wrong", "poll_receive() = {:?}, used ring head is {:?}", pr, arrival.front());
                    }
                    if let Some(tok) = pr {
                        let Some(i) = bufs.iter().position(|b| b.1 == Some(tok)) else {
                            fail!("C16", "unknown_token", "poll_receive returned token {} which is not posted", tok);
                            continue;
                        };
                        let b = &mut bufs[i];
                        // SAFETY: same buffer as passed to receive_begin for this token.
                        let r = catch_unwind(AssertUnwindSafe(|| unsafe { net.receive_complete(tok, &mut b.0) }));
                        cnt[4] += 1;
                        hh.u64(0x6);
                        arrival.pop_front();
                        bufs[i].1 = None;
                        let (id, len) = dev.borrow_mut().injected.remove(&tok).unwrap_or((0, 0));
                        match r {
                            Ok(Ok((h, l))) => {
                                if h != expect_hdr || l != len || bufs[i].0[h..h + l] != frame_bytes(id, len)[..] {
                                    fail!("C16", "received_frame_wrong", "receive_complete = (hdr {}, len {}) for frame #{} of {} bytes with a {}-byte header", h, l, id, len, expect_hdr);
                                }
                                out.frames += 1;
                                oplog.push(format!("receive_complete(token {}) -> frame #{} ({} bytes)", tok, id, len));
                            }
                            Ok(Err(e)) => fail!("C16", "receive_complete_error", "receive_complete failed: {:?}", e),
                            Err(_) => fail!("C16", "panic_in_receive_complete", "receive_complete panicked"),
                        }
                    }
                }
                65..=74 => {
                    // blocking receive_wait on a free buffer: the device injects from the spin hook.
                    // only legal when nothing else is outstanding on the receive queue
                    if bufs.iter().all(|b| b.1.is_none()) && arrival.is_empty() {
                        dev.borrow_mut().spin_inject = true;
                        let mut b = vec![0u8; rx_len];
                        let r = catch_unwind(AssertUnwindSafe(|| net.receive_wait(&mut b)));
                        dev.borrow_mut().spin_inject = false;
                        cnt[5] += 1;
                        hh.u64(0x7);
                        match r {
                            Ok(Ok((h, l))) => {
                                let d = dev.borrow();
                                let id = d.next_frame - 1;
                                if h != expect_hdr || b[h..h + l] != frame_bytes(id, l)[..] {
                                    fail!("C16", "received_frame_wrong", "receive_wait = (hdr {}, len {}) does not carry frame #{}", h, l, id);
                                }
                                out.frames += 1;
                                drop(d);
                                dev.borrow_mut().injected.clear();
                                oplog.push(format!("receive_wait() -> {} bytes", l));
                            }
                            Ok(Err(e)) => fail!("C16", "receive_wait_error", "receive_wait failed: {:?}", e),
                            Err(_) => {
                                if dev.borrow().viol.is_empty() {
                                    fail!("C16", "panic_in_receive_wait", "receive_wait panicked")
                                }
                            }
                        }
                    }
                }
                75..=87 => {
                    // blocking send (only when no transmit_begin is outstanding)
                    if txs.is_empty() {
                        let len = rng.range(0, 2000) as usize;
                        let mut frame = vec![0u8; len];
                        rng.fill(&mut frame);
                        let n0 = dev.borrow().tx_log.len();
                        let r = catch_unwind(AssertUnwindSafe(|| net.send(&frame)));
                        cnt[2] += 1;
                        hh.u64(0x4 | (len as u64) << 8);
                        oplog.push(format!("send({} bytes)", len));
                        match r {
                            Ok(Ok(())) => {
                                let d = dev.borrow();
                                let want = tx_image(expect_hdr, &frame);
                                if d.tx_log.len() != n0 + 1 || d.tx_log[n0] != want {
                                    fail!("C16", "transmitted_frame_wrong", "send of a {}-byte frame: {} chains, first {} bytes (expected {})", len, d.tx_log.len() - n0, d.tx_log.get(n0).map(|x| x.len()).unwrap_or(0), want.len());
                                }
                            }
                            Ok(Err(e)) => fail!("C16", "send_error", "send failed: {:?}", e),
                            Err(_) => {
                                if dev.borrow().viol.is_empty() {
                                    fail!("C16", "panic_in_send", "send panicked")
                                }
                            }
                        }
                    }
                }
                _ => {
                    // raw transmit_begin / poll_transmit / transmit_complete: the caller's buffer verbatim
                    if txs.len() < QS && rng.bool() {
                        let len = rng.range(expect_hdr as u64, 1600) as usize;
                        let mut b = vec![0u8; len];
                        rng.fill(&mut b);
                        match net.fill_buffer_header(&mut b) {
                            Ok(h) if h == expect_hdr && b[..h].iter().all(|x| *x == 0) => {}
                            other => fail!("C16", "header_size_wrong", "fill_buffer_header = {:?}, negotiated header size is {}", other, expect_hdr),
                        }
                        // SAFETY: the buffer is kept in `txs` untouched until transmit_complete.
                        let r = unsafe { net.transmit_begin(&b) };
                        cnt[8] += 1;
                        match r {
                            Ok(tok) => txs.push((tok, b)),
                            Err(Error::QueueFull) => {}
                            Err(e) => fail!("C16", "transmit_begin_error", "transmit_begin failed: {:?}", e),
                        }
                    } else if !txs.is_empty() {
                        dev.borrow_mut().observe();
                        if let Some(tok) = net.poll_transmit() {
                            if let Some(i) = txs.iter().position(|t| t.0 == tok) {
                                let (tok, b) = txs.remove(i);
                                // SAFETY: same buffer as passed to transmit_begin.
                                let r = unsafe { net.transmit_complete(tok, &b) };
                                if r.is_err() {
                                    fail!("C16", "transmit_complete_error", "transmit_complete failed: {:?}", r);
                                }
                                let d = dev.borrow();
                                if !d.tx_log.iter().rev().take(QS + 2).any(|x| *x == b) {
                                    fail!("C16", "transmitted_frame_wrong", "raw transmit of {} bytes did not reach the device verbatim", b.len());
                                }
                                cnt[9] += 1;
                            } else {
                                fail!("C16", "unknown_token", "poll_transmit returned token {} which is not outstanding", tok);
                            }
                        }
                    }
                }
            }
        }
        hooks::clear();
        let _ = catch_unwind(AssertUnwindSafe(move || drop(net)));
        drop(bufs);
        drop(txs);
    }
    for (r, d) in rig.take_register_violations() {
        out.viol.push(DViol { prop: if rig.kind == TKind::Pci { "C11" } else { "C10" }, rule: r, detail: d });
    }
    for v in mem::with(|l| l.take_violations()) {
        out.viol.push(DViol { prop: "C04", rule: v.rule, detail: v.detail });
    }
    out.viol.extend(dev.borrow().viol.iter().cloned());
    for v in out.viol.iter_mut() {
        v.detail = format!("{} [{} driver QUEUE_SIZE {} transport {} policy {:?} offered {:#x} case {}]", v.detail, if buffered { "buffered" } else { "raw" }, QS, kind.name(), policy, offered, case);
    }
    let d = dev.borrow();
    out.hash = hh.finish();
    out.counters = vec![("receive_calls", cnt[0]), ("recycles", cnt[1]), ("sends", cnt[2]), ("raw_receive_begin", cnt[3]), ("raw_receive_complete", cnt[4]), ("raw_receive_wait", cnt[5]), ("conservation_checks", cnt[6]), ("full_recycle_audits", cnt[7]), ("raw_transmit_begin", cnt[8]), ("raw_transmit_complete", cnt[9]), ("frames_injected", d.frames_injected), ("frames_received_and_compared", out.frames), ("transmit_chains_checked", d.tx_log.len() as u64), (if expect_hdr == 12 { "cases_header_12" } else { "cases_header_10" }, 1), (if buffered { "cases_buffered_driver" } else { "cases_raw_driver" }, 1)];
    if want_sample {
        out.sample = Some(J::obj().with("case", J::u(case)).with("driver", J::s(if buffered { "VirtIONet" } else { "VirtIONetRaw" })).with("queue_size", J::us(QS)).with("transport", J::s(kind.name())).with("header_bytes", J::us(expect_hdr)).with("first_operations", J::arr(oplog.iter().take(14).map(|s| J::s(s.clone())))));
    }
    crate::mmio_bus::reset();
    out
}

pub fn one_case(case: u64, seed: u64, steps: usize, want_sample: bool) -> CaseOut {
    match (case / 16) % 3 {
        0 => case_generic::<2>(case, seed, steps, want_sample),
        1 => case_generic::<4>(case, seed, steps, want_sample),
        _ => case_generic::<16>(case, seed, steps, want_sample),
    }
}

pub fn run(args: &Args, sh: &mut Shard) {
    // under Miri: model transports only (see xport_any::set_model_only), tiny workloads
    crate::xport_any::set_model_only(args.is_miri());
    let steps = if args.is_miri() { 40 } else if args.thorough() { 2000 } else { 500 };
    if let Some(r) = &args.replay {
        let case = r.get("case").and_then(|x| x.as_u64()).unwrap_or(0);
        let o = one_case(case, args.seed, steps, true);
        println!("REPLAY case {}: {:#?} sample {:?}", case, o.viol, o.sample.map(|s| s.to_string()));
        for v in o.viol {
            sh.violation(Violation { prop: v.prop.into(), signature: format!("{}/{}", v.prop, v.rule), detail: v.detail, replay: r.clone() });
        }
        sh.evaluations = 1;
        return;
    }
    let n = if args.is_miri() { 48 } else { args.scaled(if args.thorough() { 60_000 } else { 4_800 }) };
    let mut case = args.shard;
    while case < n {
        let o = one_case(case, args.seed, steps, sh.want_sample());
        sh.evaluations += 1;
        for (k, v) in &o.counters {
            sh.inc(k, *v);
        }
        if o.frames > 0 {
            sh.nontrivial.insert(o.hash);
        }
        if let Some(s) = o.sample {
            sh.sample(s);
        }
        for v in o.viol {
            sh.violation(Violation { prop: v.prop.into(), signature: format!("{}/{}", v.prop, v.rule), detail: v.detail, replay: J::obj().with("case", J::u(case)).with("build", J::s(args.build.clone())) });
        }
        if sh.violations.len() >= 8 {
            return;
        }
        case += args.nshards;
    }
}
