//! C17 (credit-based flow control, loss-free streams, counter wrap) and C18 (connection state,
//! isolation, receive buffers always returned): the real `VsockConnectionManager` against a
//! reference peer that keeps both credit windows in 64-bit arithmetic and a lock-step connection table.
use super::Args;
use crate::devsim::{self, DViol, Personality, Policy, QSrv};
use crate::hooks;
use crate::json::J;
use crate::mem::{self, HalMode, LedgerHal};
use crate::report::{Shard, Violation};
use crate::rng::{Hash64, Rng};
use crate::xport_any::{self, AnyT, Rig, TKind};
use std::cell::RefCell;
use std::collections::VecDeque;
use std::panic::{AssertUnwindSafe, catch_unwind};
use std::rc::Rc;
use virtio_drivers::Error;
use virtio_drivers::device::socket::{DisconnectReason, SocketError, VirtIOSocket, VsockAddr, VsockConnectionManager, VsockEventType};
use virtio_drivers::transport::DeviceType;

pub const GUEST_CID: u64 = 0x1_0000_0003;
const HDR: usize = 44;

#[derive(Clone, Debug, PartialEq, Eq)]
pub struct Pkt {
    pub src_cid: u64,
    pub dst_cid: u64,
    pub src_port: u32,
    pub dst_port: u32,
    pub len: u32,
    pub ty: u16,
    pub op: u16,
    pub flags: u32,
    pub buf_alloc: u32,
    pub fwd_cnt: u32,
    pub payload_len: usize,
    pub payload_hash: u64,
}

fn parse(b: &[u8]) -> Pkt {
    let u64at = |o: usize| u64::from_le_bytes(b[o..o + 8].try_into().unwrap());
    let u32at = |o: usize| u32::from_le_bytes(b[o..o + 4].try_into().unwrap());
    let u16at = |o: usize| u16::from_le_bytes(b[o..o + 2].try_into().unwrap());
    let mut h = Hash64::new();
    h.bytes(&b[HDR..]);
    Pkt { src_cid: u64at(0), dst_cid: u64at(8), src_port: u32at(16), dst_port: u32at(20), len: u32at(24), ty: u16at(28), op: u16at(30), flags: u32at(32), buf_alloc: u32at(36), fwd_cnt: u32at(40), payload_len: b.len() - HDR, payload_hash: h.finish() }
}

#[allow(clippy::too_many_arguments)]
fn build_hdr(src_cid: u64, dst_cid: u64, src_port: u32, dst_port: u32, len: u32, ty: u16, op: u16, flags: u32, buf_alloc: u32, fwd_cnt: u32) -> Vec<u8> {
    let mut v = Vec::with_capacity(HDR);
    v.extend_from_slice(&src_cid.to_le_bytes());
    v.extend_from_slice(&dst_cid.to_le_bytes());
    v.extend_from_slice(&src_port.to_le_bytes());
    v.extend_from_slice(&dst_port.to_le_bytes());
    v.extend_from_slice(&len.to_le_bytes());
    v.extend_from_slice(&ty.to_le_bytes());
    v.extend_from_slice(&op.to_le_bytes());
    v.extend_from_slice(&flags.to_le_bytes());
    v.extend_from_slice(&buf_alloc.to_le_bytes());
    v.extend_from_slice(&fwd_cnt.to_le_bytes());
    v
}

/// The device half: serves the tx queue immediately (logging parsed packets) and lets the workload
/// inject packets into posted rx buffers.
pub struct RefVsockDev {
    st: Rc<RefCell<crate::xport_model::ModelState>>,
    pub rx: Option<QSrv>,
    pub tx: Option<QSrv>,
    pub ev: Option<QSrv>,
    policy: Policy,
    pub viol: Vec<DViol>,
    pub tx_log: VecDeque<Pkt>,
    pub in_spin: bool,
    pub keep_payload: bool,
    pub last_payload: Vec<u8>,
    pub tx_packets: u64,
    /// in wait_for_event the device may inject this packet from the spin hook
    pub spin_packet: Option<Vec<u8>>,
    pub rx_capacity: usize,
}

impl RefVsockDev {
    pub fn new(rig: &Rig, policy: Policy) -> RefVsockDev {
        RefVsockDev { st: rig.st.clone(), rx: None, tx: None, ev: None, policy, viol: vec![], tx_log: VecDeque::new(), in_spin: false, keep_payload: true, last_payload: vec![], tx_packets: 0, spin_packet: None, rx_capacity: 0 }
    }
    fn ensure(&mut self) {
        let st = self.st.borrow();
        if st.status & 4 == 0 {
            return;
        }
        if self.rx.is_none() {
            self.rx = QSrv::new(&st, 0, self.policy);
        }
        if self.tx.is_none() {
            self.tx = QSrv::new(&st, 1, self.policy);
        }
        if self.ev.is_none() {
            self.ev = QSrv::new(&st, 2, self.policy);
        }
    }
    pub fn observe(&mut self) {
        self.ensure();
        let notes = self.st.borrow_mut().take_notifications();
        let mut nv: Vec<DViol> = vec![];
        for (qi, q) in [(0u16, &mut self.rx), (1u16, &mut self.tx)] {
            if let Some(q) = q.as_mut() {
                if notes.contains(&qi) {
                    q.notified = true;
                }
                if q.pending() > 0 {
                    if q.may_look() {
                        if let Err(e) = q.fetch_all() {
                            nv.push(DViol { prop: "C01", rule: "chain_malformed", detail: e });
                        }
                    } else if self.in_spin && qi == 1 {
                        nv.push(DViol { prop: "C05", rule: "wait_without_notification", detail: "vsock send waits on a serve-on-notify device that was not notified".into() });
                    }
                }
            }
        }
        while let Some(q) = self.tx.as_mut() {
            let Some(ch) = q.held.front().cloned() else { break };
            if ch.writable_len() != 0 || ch.readable_len() < HDR {
                nv.push(DViol { prop: "C17", rule: "transmit_chain_shape", detail: format!("tx chain {:?}", ch.elems) });
                let _ = q.complete_at(0, &[], Some(0));
                continue;
            }
            // header always; payload only when asked (multi-GiB runs do not read it)
            let bytes = if self.keep_payload || ch.readable_len() <= 4096 {
                q.dev.read_payload(&ch)
            } else {
                let mut hdr = vec![0u8; HDR];
                let mut off = 0;
                let mut r = Ok(());
                for e in ch.elems.iter() {
                    if off >= HDR {
                        break;
                    }
                    let n = (e.len as usize).min(HDR - off);
                    r = mem::with(|l| l.dev_read(e.addr, &mut hdr[off..off + n]));
                    off += n;
                }
                r.map(|_| hdr)
            };
            match bytes {
                Ok(b) => {
                    let mut p = parse(&b);
                    if !(self.keep_payload || ch.readable_len() <= 4096) {
                        p.payload_len = ch.readable_len() - HDR;
                    } else if self.keep_payload {
                        self.last_payload = b[HDR..].to_vec();
                    }
                    self.tx_log.push_back(p);
                    self.tx_packets += 1;
                }
                Err(e) => nv.push(DViol { prop: "C04", rule: "device_cannot_read_buffer", detail: e }),
            }
            let _ = q.complete_at(0, &[], Some(0));
        }
        for v in nv {
            if self.viol.len() < 8 {
                self.viol.push(v);
            }
        }
    }
    pub fn rx_posted(&self) -> usize {
        self.rx.as_ref().map(|q| q.held.len() + q.pending() as usize).unwrap_or(0)
    }
    /// Write a raw packet into a posted rx buffer (FIFO order, as a real device does) with the given used length.
    pub fn inject(&mut self, bytes: &[u8], used_len: Option<u32>) -> bool {
        let Some(q) = self.rx.as_mut() else { return false };
        if q.held.is_empty() {
            return false;
        }
        let cap = q.held[0].writable_len();
        self.rx_capacity = cap;
        let n = bytes.len().min(cap);
        if q.complete_at(0, &bytes[..n], Some(used_len.unwrap_or(n as u32))).is_err() {
            return false;
        }
        true
    }
}

impl Personality for RefVsockDev {
    fn step(&mut self) {
        self.in_spin = true;
        self.observe();
        if let Some(p) = self.spin_packet.take() {
            if !self.inject(&p, None) {
                self.spin_packet = Some(p);
            }
        }
        self.in_spin = false;
    }
    fn fatal(&self) -> bool {
        self.viol.iter().any(|v| v.rule == "wait_without_notification" || v.rule == "chain_malformed")
    }
}

pub fn stream_byte(conn: u64, k: u64) -> u8 {
    let w = (k / 2).wrapping_mul(0x9e3779b97f4a7c15).wrapping_add(conn.wrapping_mul(0x1234567)) >> 17;
    if k % 2 == 0 { w as u8 } else { (w >> 8) as u8 }
}

#[derive(Clone, Debug)]
struct Conn {
    peer: VsockAddr,
    local: u32,
    id: u64,
    established: bool,
    // driver -> peer direction
    peer_buf_alloc: u32,
    /// total bytes the peer has consumed, as last advertised to (and polled by) the driver
    peer_fwd_total_adv: u64,
    /// total bytes the peer really consumed
    peer_fwd_total: u64,
    tx_total: u64,
    credit_request_pending: bool,
    // peer -> driver direction
    sent_total: u64,
    read_total: u64,
    drv_buf_alloc_seen: u32,
    drv_fwd_total_seen: u64,
    peer_shutdown: bool,
}
impl Conn {
    fn buffered(&self) -> u64 {
        self.sent_total - self.read_total
    }
    fn driver_free(&self) -> u64 {
        let in_flight = self.tx_total - self.peer_fwd_total_adv;
        (self.peer_buf_alloc as u64).saturating_sub(in_flight)
    }
}

pub struct CaseOut {
    pub viol: Vec<DViol>,
    pub hash: u64,
    pub counters: Vec<(&'static str, u64)>,
    pub sample: Option<J>,
    pub checked_bytes: u64,
    pub nontrivial: bool,
}

#[derive(Clone, Copy, Debug, PartialEq, Eq)]
pub enum Focus {
    Credit,
    State,
    WrapTx,
    WrapRx,
}

struct World<const RX: usize> {
    mgr: VsockConnectionManager<LedgerHal, AnyT, RX>,
    dev: Rc<RefCell<RefVsockDev>>,
    conns: Vec<Conn>,
    listening: Vec<u32>,
    capacity: u32,
    viol: Vec<DViol>,
    cnt: std::collections::BTreeMap<&'static str, u64>,
    oplog: Vec<String>,
    hh: Hash64,
    /// packets injected but not yet polled: expectation closures are evaluated at poll time
    inflight: VecDeque<Injected>,
    next_conn_id: u64,
    checked_bytes: u64,
    keep_oplog: bool,
}

#[derive(Clone, Debug)]
struct Injected {
    kind: InjKind,
    peer: VsockAddr,
    local: u32,
    dst_cid: u64,
    op: u16,
    len: u32,
    buf_alloc: u32,
    fwd_total: u64,
}
#[derive(Clone, Debug, PartialEq, Eq)]
enum InjKind {
    Valid,
    /// invalid header content: poll must return Err and change nothing
    Invalid,
}

impl<const RX: usize> World<RX> {
    fn inc(&mut self, k: &'static str) {
        *self.cnt.entry(k).or_insert(0) += 1;
    }
    fn add(&mut self, k: &'static str, v: u64) {
        *self.cnt.entry(k).or_insert(0) += v;
    }
    fn v(&mut self, prop: &'static str, rule: &'static str, d: String) {
        if self.viol.len() < 8 {
            self.viol.push(DViol { prop, rule, detail: d });
        }
    }
    fn failed(&self) -> bool {
        !self.viol.is_empty() || !self.dev.borrow().viol.is_empty()
    }
    fn find(&self, peer: VsockAddr, local: u32) -> Option<usize> {
        self.conns.iter().position(|c| c.peer == peer && c.local == local)
    }
    fn log(&mut self, f: impl FnOnce() -> String) {
        if self.keep_oplog && self.oplog.len() < 64 {
            let s = f();
            self.oplog.push(s);
        }
    }

    /// Pop the packets the driver put on the tx queue since the last call and check their headers.
    fn take_tx(&mut self) -> Vec<Pkt> {
        self.dev.borrow_mut().observe();
        let pk: Vec<Pkt> = self.dev.borrow_mut().tx_log.drain(..).collect();
        for p in &pk {
            self.inc("tx_headers_checked");
            if p.src_cid != GUEST_CID || p.ty != 1 || p.len as usize != p.payload_len || !(1..=7).contains(&p.op) {
                self.v("C17", "tx_header_wrong", format!("driver sent {:x?} (guest cid {:#x})", p, GUEST_CID));
                continue;
            }
            if p.buf_alloc != self.capacity {
                self.v("C17", "advertised_buf_alloc_wrong", format!("driver advertises buf_alloc {} but the per-connection capacity is {}", p.buf_alloc, self.capacity));
            }
            let peer = VsockAddr { cid: p.dst_cid, port: p.dst_port };
            if let Some(i) = self.find(peer, p.src_port) {
                let c = &mut self.conns[i];
                if p.fwd_cnt != c.read_total as u32 {
                    let d = format!("driver advertises fwd_cnt {} but the application has read {} bytes (mod 2^32 = {}) from this connection", p.fwd_cnt, c.read_total, c.read_total as u32);
                    self.v("C17", "advertised_fwd_cnt_wrong", d);
                    continue;
                }
                // what a credit-respecting peer learns from this header
                c.drv_buf_alloc_seen = p.buf_alloc;
                c.drv_fwd_total_seen = c.read_total;
                // advertised free space must not overstate the real free space
                let advertised_free = (p.buf_alloc as u64).saturating_sub(c.sent_total - c.drv_fwd_total_seen);
                let real_free = (self.capacity as u64).saturating_sub(c.buffered());
                if advertised_free > real_free {
                    let d = format!("advertised free receive space {} exceeds the real free space {}", advertised_free, real_free);
                    self.v("C17", "credit_overstated", d);
                }
            }
        }
        pk
    }

    fn expect_tx(&mut self, pk: &[Pkt], what: &str, want: &[(u16, VsockAddr, u32)]) {
        let got: Vec<(u16, VsockAddr, u32)> = pk.iter().map(|p| (p.op, VsockAddr { cid: p.dst_cid, port: p.dst_port }, p.src_port)).collect();
        if got != want {
            self.v("C18", "unexpected_packets_sent", format!("{}: driver sent (op, peer, local port) {:?}, expected {:?}", what, got, want));
        }
    }

    // ------------------------------------------------------------------ peer actions

    /// Inject a packet from `peer` to (dst_cid, local).
    #[allow(clippy::too_many_arguments)]
    fn inject(&mut self, peer: VsockAddr, dst_cid: u64, local: u32, op: u16, payload: &[u8], len_field: Option<u32>, used_len: Option<u32>, ty: u16, invalid: bool) -> bool {
        if self.inflight.len() >= 8 {
            return false;
        }
        let (buf_alloc, fwd_total) = match self.find(peer, local) {
            Some(i) => (self.conns[i].peer_buf_alloc, self.conns[i].peer_fwd_total),
            None => (4096, 0),
        };
        let mut b = build_hdr(peer.cid, dst_cid, peer.port, local, len_field.unwrap_or(payload.len() as u32), ty, op, 0, buf_alloc, fwd_total as u32);
        b.extend_from_slice(payload);
        self.dev.borrow_mut().observe();
        if !self.dev.borrow_mut().inject(&b, used_len) {
            return false;
        }
        self.inflight.push_back(Injected { kind: if invalid { InjKind::Invalid } else { InjKind::Valid }, peer, local, dst_cid, op, len: payload.len() as u32, buf_alloc, fwd_total });
        true
    }

    /// poll() once and compare with the reference model's expectation for the packet at the head.
    fn poll_once(&mut self) {
        self.poll_inner();
        self.audit_table();
    }

    /// Isolation audit: every connection of the reference table must exist in the manager with the same
    /// establishment state (whatever packet was just processed).
    fn audit_table(&mut self) {
        if self.failed() {
            return;
        }
        let all: Vec<(VsockAddr, u32, bool)> = self.conns.iter().map(|c| (c.peer, c.local, c.established)).collect();
        for (p, l, e) in all {
            let r = self.mgr.is_connection_established(p, l);
            if r != Ok(e) {
                self.v("C18", "connection_table_diverged", format!("connection ({:?}, local port {}) should exist with established={} but is_connection_established = {:?}", p, l, e, r));
                return;
            }
        }
        self.inc("connection_table_audits");
    }

    fn poll_inner(&mut self) {
        let head = self.inflight.pop_front();
        let r = catch_unwind(AssertUnwindSafe(|| self.mgr.poll()));
        self.inc("polls");
        let r = match r {
            Ok(r) => r,
            Err(_) => {
                if self.dev.borrow().viol.is_empty() {
                    self.v("C18", "panic_in_poll", format!("poll() panicked on {:?}", head));
                }
                return;
            }
        };
        let sent = self.take_tx();
        // every received packet returns its buffer, whatever the outcome
        let posted = self.dev.borrow().rx_posted();
        if posted + self.inflight.len() != 8 {
            let d = format!("after poll() {} receive buffers are posted and {} completed ones are unprocessed; QUEUE_SIZE is 8 (packet: {:?}, result {:?})", posted, self.inflight.len(), head, r);
            self.v("C18", "receive_buffer_not_returned", d);
        }
        self.inc("posted_buffer_audits");
        let Some(inj) = head else {
            if r != Ok(None) {
                self.v("C18", "event_without_packet", format!("poll() = {:?} although no packet was delivered", r));
            }
            self.expect_tx(&sent, "poll() without packet", &[]);
            return;
        };
        if inj.kind == InjKind::Invalid {
            self.inc("invalid_packets_polled");
            if r.is_ok() && r != Ok(None) {
                self.v("C18", "invalid_packet_accepted", format!("poll() = {:?} for malformed packet {:?}", r, inj));
            }
            self.expect_tx(&sent, "poll() of a malformed packet", &[]);
            return;
        }
        let known = if inj.dst_cid == GUEST_CID { self.find(inj.peer, inj.local) } else { None };
        match (known, inj.op) {
            (None, 1) if inj.dst_cid == GUEST_CID => {
                if self.listening.contains(&inj.local) {
                    self.expect_tx(&sent, "request to a listening port", &[(2, inj.peer, inj.local)]);
                    match &r {
                        Ok(Some(ev)) if ev.event_type == VsockEventType::ConnectionRequest && ev.source == inj.peer && ev.destination.port == inj.local => {}
                        other => self.v("C18", "request_not_reported", format!("request from {:?} to listening port {}: poll() = {:?}", inj.peer, inj.local, other)),
                    }
                    let id = self.next_conn_id;
                    self.next_conn_id += 1;
                    self.conns.push(Conn { peer: inj.peer, local: inj.local, id, established: true, peer_buf_alloc: inj.buf_alloc, peer_fwd_total_adv: inj.fwd_total, peer_fwd_total: inj.fwd_total, tx_total: 0, credit_request_pending: false, sent_total: 0, read_total: 0, drv_buf_alloc_seen: self.capacity, drv_fwd_total_seen: 0, peer_shutdown: false });
                    self.inc("requests_accepted");
                } else {
                    self.expect_tx(&sent, "request to a port that is not listening", &[(3, inj.peer, inj.local)]);
                    if r != Ok(None) {
                        self.v("C18", "rejected_request_reported", format!("request to non-listening port {}: poll() = {:?}", inj.local, r));
                    }
                    self.inc("requests_rejected");
                }
            }
            (None, _) => {
                self.expect_tx(&sent, "packet for an unknown connection", &[]);
                if r != Ok(None) {
                    self.v("C18", "unknown_connection_packet_delivered", format!("packet {:?} matches no connection but poll() = {:?}", inj, r));
                }
                self.inc("unknown_connection_packets");
            }
            (Some(i), op) => {
                // every event for a known connection refreshes the cached peer credit
                {
                    let c = &mut self.conns[i];
                    c.peer_buf_alloc = inj.buf_alloc;
                    c.peer_fwd_total_adv = inj.fwd_total;
                }
                let ev_ok = |want: VsockEventType| matches!(&r, Ok(Some(ev)) if ev.event_type == want && ev.source == inj.peer && ev.destination.port == inj.local);
                match op {
                    1 => {
                        // a request on an existing connection: what happens to *that* connection is not
                        // specified; adopt the library's answer for it (the audit below still holds every
                        // other connection to the model)
                        self.inc("duplicate_requests");
                        match self.mgr.is_connection_established(inj.peer, inj.local) {
                            Ok(e) => self.conns[i].established = e,
                            Err(_) => {
                                self.conns.swap_remove(i);
                            }
                        }
                    }
                    2 => {
                        self.conns[i].established = true;
                        if !ev_ok(VsockEventType::Connected) {
                            self.v("C18", "event_wrong", format!("response: poll() = {:?}", r));
                        }
                        self.expect_tx(&sent, "response", &[]);
                    }
                    5 => {
                        if !ev_ok(VsockEventType::Received { length: inj.len as usize }) {
                            self.v("C17", "data_packet_not_delivered", format!("data packet of {} bytes within the advertised credit: poll() = {:?}", inj.len, r));
                        }
                        self.expect_tx(&sent, "data", &[]);
                    }
                    6 => {
                        self.conns[i].credit_request_pending = false;
                        if !ev_ok(VsockEventType::CreditUpdate) {
                            self.v("C18", "event_wrong", format!("credit update: poll() = {:?}", r));
                        }
                        self.expect_tx(&sent, "credit update", &[]);
                    }
                    7 => {
                        if r != Ok(None) {
                            self.v("C18", "event_wrong", format!("credit request: poll() = {:?}", r));
                        }
                        self.expect_tx(&sent, "credit request", &[(6, inj.peer, inj.local)]);
                        self.inc("credit_requests_answered");
                    }
                    4 | 3 => {
                        let reason = if op == 3 { DisconnectReason::Reset } else { DisconnectReason::Shutdown };
                        if !ev_ok(VsockEventType::Disconnected { reason }) {
                            self.v("C18", "event_wrong", format!("disconnect: poll() = {:?}", r));
                        }
                        if self.conns[i].buffered() == 0 {
                            if op == 4 {
                                self.expect_tx(&sent, "peer shutdown with nothing buffered", &[(3, inj.peer, inj.local)]);
                            } else {
                                self.expect_tx(&sent, "peer reset", &[]);
                            }
                            self.conns.swap_remove(i);
                        } else {
                            self.expect_tx(&sent, "peer shutdown with data buffered", &[]);
                            self.conns[i].peer_shutdown = true;
                        }
                        self.inc("disconnects");
                    }
                    _ => {}
                }
            }
        }
    }

    fn poll_all(&mut self) {
        let mut guard = 0;
        while !self.inflight.is_empty() && !self.failed() && guard < 16 {
            guard += 1;
            self.poll_once();
        }
    }

    // ------------------------------------------------------------------ local operations

    fn op_connect(&mut self, peer: VsockAddr, local: u32, peer_buf_alloc: u32) {
        let exists = self.find(peer, local).is_some();
        let r = self.mgr.connect(peer, local);
        let sent = self.take_tx();
        self.log(|| format!("connect({:?}, {}) -> {:?}", peer, local, r));
        if exists {
            if r != Err(Error::SocketDeviceError(SocketError::ConnectionExists)) {
                self.v("C18", "duplicate_connect_not_refused", format!("connect on an existing connection returned {:?}", r));
            }
            self.expect_tx(&sent, "duplicate connect", &[]);
            self.inc("duplicate_connects");
        } else {
            if r != Ok(()) {
                self.v("C18", "connect_failed", format!("connect returned {:?}", r));
                return;
            }
            self.expect_tx(&sent, "connect", &[(1, peer, local)]);
            let id = self.next_conn_id;
            self.next_conn_id += 1;
            self.conns.push(Conn { peer, local, id, established: false, peer_buf_alloc: 0, peer_fwd_total_adv: 0, peer_fwd_total: 0, tx_total: 0, credit_request_pending: false, sent_total: 0, read_total: 0, drv_buf_alloc_seen: self.capacity, drv_fwd_total_seen: 0, peer_shutdown: false });
            // the peer answers with a response carrying its window
            let i = self.conns.len() - 1;
            self.conns[i].peer_buf_alloc = peer_buf_alloc;
            self.inject(peer, GUEST_CID, local, 2, &[], None, None, 1, false);
            self.poll_all();
            self.inc("connects");
        }
    }

    fn op_send(&mut self, peer: VsockAddr, local: u32, data: &[u8]) {
        let idx = self.find(peer, local);
        let r = catch_unwind(AssertUnwindSafe(|| self.mgr.send(peer, local, data)));
        let r = match r {
            Ok(r) => r,
            Err(_) => {
                if self.dev.borrow().viol.is_empty() {
                    self.v("C17", "panic_in_send", format!("send({} bytes) panicked (connection state {:?})", data.len(), idx.map(|i| self.conns[i].clone())));
                }
                return;
            }
        };
        let sent = self.take_tx();
        self.log(|| format!("send({:?}, {}, {} bytes) -> {:?}", peer, local, data.len(), r));
        self.inc("sends");
        let Some(i) = idx else {
            if r != Err(Error::SocketDeviceError(SocketError::NotConnected)) {
                self.v("C18", "unknown_connection_not_refused", format!("send on an unknown connection returned {:?}", r));
            }
            self.expect_tx(&sent, "send on unknown connection", &[]);
            self.inc("ops_on_unknown_connection");
            return;
        };
        if self.conns[i].peer_shutdown {
            if r != Err(Error::SocketDeviceError(SocketError::PeerSocketShutdown)) {
                self.v("C18", "send_after_peer_shutdown", format!("send after peer shutdown returned {:?}", r));
            }
            return;
        }
        let free = self.conns[i].driver_free();
        if data.len() as u64 <= free {
            if r != Ok(()) {
                self.v("C17", "send_refused_with_credit", format!("send of {} bytes refused ({:?}) although the peer advertised {} free bytes (buf_alloc {}, in flight {})", data.len(), r, free, self.conns[i].peer_buf_alloc, self.conns[i].tx_total - self.conns[i].peer_fwd_total_adv));
                return;
            }
            match sent.as_slice() {
                [p] if p.op == 5 && p.dst_cid == peer.cid && p.dst_port == peer.port && p.src_port == local && p.payload_len == data.len() => {
                    let d = self.dev.borrow();
                    if d.keep_payload && d.last_payload != data {
                        drop(d);
                        self.v("C17", "payload_wrong", "data packet payload differs from the caller's bytes".into());
                    }
                }
                other => {
                    let d = format!("send of {} bytes produced packets {:?}", data.len(), other);
                    self.v("C17", "data_packet_wrong", d);
                }
            }
            let c = &mut self.conns[i];
            c.tx_total += data.len() as u64;
            // never more in flight than the peer last advertised
            let in_flight = c.tx_total - c.peer_fwd_total_adv;
            if in_flight > c.peer_buf_alloc as u64 {
                let d = format!("{} bytes in flight towards a peer that advertised buf_alloc {}", in_flight, c.peer_buf_alloc);
                self.v("C17", "peer_credit_exceeded", d);
            }
            self.add("bytes_sent", data.len() as u64);
        } else {
            if r != Err(Error::SocketDeviceError(SocketError::InsufficientBufferSpaceInPeer)) {
                self.v("C17", "send_beyond_peer_credit", format!("send of {} bytes with only {} free bytes at the peer returned {:?}", data.len(), free, r));
                return;
            }
            let want: Vec<(u16, VsockAddr, u32)> = if self.conns[i].credit_request_pending { vec![] } else { vec![(7, peer, local)] };
            let got: Vec<(u16, VsockAddr, u32)> = sent.iter().map(|p| (p.op, VsockAddr { cid: p.dst_cid, port: p.dst_port }, p.src_port)).collect();
            if got != want {
                let d = format!("refused send: driver sent {:?}, expected {:?} (exactly one credit request per starvation episode; already pending: {})", got, want, self.conns[i].credit_request_pending);
                self.v("C17", "credit_request_count_wrong", d);
            }
            self.conns[i].credit_request_pending = true;
            self.inc("sends_refused_for_credit");
        }
    }

    /// The peer consumes `n` of the bytes in flight and tells the driver (credit update), possibly with a new window.
    fn peer_credit_update(&mut self, i: usize, consume: u64, new_alloc: Option<u32>) {
        let (peer, local) = (self.conns[i].peer, self.conns[i].local);
        {
            let c = &mut self.conns[i];
            let in_flight = c.tx_total - c.peer_fwd_total;
            c.peer_fwd_total += consume.min(in_flight);
            if let Some(a) = new_alloc {
                c.peer_buf_alloc = a;
            }
        }
        self.inject(peer, GUEST_CID, local, 6, &[], None, None, 1, false);
        self.inc("peer_credit_updates");
    }

    /// The (credit-respecting) peer sends up to `want` stream bytes.
    fn peer_send_data(&mut self, i: usize, want: usize) -> usize {
        let (peer, local, id) = (self.conns[i].peer, self.conns[i].local, self.conns[i].id);
        let c = &self.conns[i];
        let credit = (c.drv_buf_alloc_seen as u64).saturating_sub(c.sent_total - c.drv_fwd_total_seen);
        let n = (want as u64).min(credit).min((RX - HDR) as u64) as usize;
        if n == 0 {
            return 0;
        }
        let data: Vec<u8> = (0..n as u64).map(|k| stream_byte(id, c.sent_total + k)).collect();
        if self.inject(peer, GUEST_CID, local, 5, &data, None, None, 1, false) {
            self.conns[i].sent_total += n as u64;
            self.add("bytes_from_peer", n as u64);
            n
        } else {
            0
        }
    }

    fn op_recv(&mut self, peer: VsockAddr, local: u32, n: usize) {
        let idx = self.find(peer, local);
        let mut buf = vec![0u8; n];
        let avail = catch_unwind(AssertUnwindSafe(|| self.mgr.recv_buffer_available_bytes(peer, local)));
        let r = catch_unwind(AssertUnwindSafe(|| self.mgr.recv(peer, local, &mut buf)));
        let (Ok(avail), Ok(r)) = (avail, r) else {
            if self.dev.borrow().viol.is_empty() {
                self.v("C17", "panic_in_recv", format!("recv({}) panicked", n));
            }
            return;
        };
        // the driver's forwarded-byte counter already includes the bytes just handed out: update the
        // shadow count before looking at the headers of packets sent from inside recv()
        let mut pre_read_total = 0;
        if let (Some(i), Ok(k)) = (idx, &r) {
            pre_read_total = self.conns[i].read_total;
            if (*k as u64) <= self.conns[i].buffered() {
                self.conns[i].read_total += *k as u64;
            }
        }
        let sent = self.take_tx();
        if let (Some(i), Ok(k)) = (idx, &r) {
            if self.conns.get(i).is_some_and(|c| c.read_total == pre_read_total + *k as u64) {
                self.conns[i].read_total = pre_read_total;
            }
        }
        self.log(|| format!("recv({:?}, {}, {}) -> {:?}", peer, local, n, r));
        self.inc("recvs");
        let Some(i) = idx else {
            if r != Err(Error::SocketDeviceError(SocketError::NotConnected)) || avail != Err(Error::SocketDeviceError(SocketError::NotConnected)) {
                self.v("C18", "unknown_connection_not_refused", format!("recv on an unknown connection returned {:?}", r));
            }
            self.inc("ops_on_unknown_connection");
            return;
        };
        // bytes still in injected-but-unpolled packets are not in the manager's buffer yet
        let unpolled: u64 = self.inflight.iter().filter(|p| p.kind == InjKind::Valid && p.op == 5 && p.peer == peer && p.local == local).map(|p| p.len as u64).sum();
        let c = self.conns[i].clone();
        let buffered = c.buffered() - unpolled;
        if avail != Ok(buffered as usize) {
            self.v("C17", "buffered_count_wrong", format!("recv_buffer_available_bytes = {:?}, the peer's delivered-minus-read count is {}", avail, buffered));
        }
        match r {
            Ok(k) => {
                if k as u64 != buffered.min(n as u64) {
                    self.v("C17", "recv_length_wrong", format!("recv(buffer of {}) returned {} with {} bytes buffered", n, k, buffered));
                    return;
                }
                for (j, b) in buf[..k].iter().enumerate() {
                    if *b != stream_byte(c.id, c.read_total + j as u64) {
                        let d = format!("byte #{} read from the connection is {:#04x}, the peer sent {:#04x}", c.read_total + j as u64, b, stream_byte(c.id, c.read_total + j as u64));
                        self.v("C17", "stream_mismatch", d);
                        return;
                    }
                }
                self.conns[i].read_total += k as u64;
                self.checked_bytes += k as u64;
                let c = &self.conns[i];
                if c.peer_shutdown && c.buffered() == 0 {
                    self.expect_tx(&sent, "drained after peer shutdown", &[(3, peer, local)]);
                    self.conns.swap_remove(i);
                    self.inc("closed_after_drain");
                } else {
                    self.expect_tx(&sent, "recv", &[]);
                }
            }
            Err(e) => self.v("C17", "recv_error", format!("recv failed: {:?}", e)),
        }
    }

    fn op_simple(&mut self, which: u64, peer: VsockAddr, local: u32) {
        let idx = self.find(peer, local);
        let (name, r, op): (&str, Result<(), Error>, u16) = match which {
            0 => ("shutdown", self.mgr.shutdown(peer, local), 4),
            1 => ("force_close", self.mgr.force_close(peer, local), 3),
            _ => ("update_credit", self.mgr.update_credit(peer, local), 6),
        };
        let sent = self.take_tx();
        self.log(|| format!("{}({:?}, {}) -> {:?}", name, peer, local, r));
        self.inc("local_control_ops");
        match idx {
            None => {
                if r != Err(Error::SocketDeviceError(SocketError::NotConnected)) {
                    self.v("C18", "unknown_connection_not_refused", format!("{} on an unknown connection returned {:?}", name, r));
                }
                self.expect_tx(&sent, name, &[]);
                self.inc("ops_on_unknown_connection");
            }
            Some(i) => {
                if which == 2 && self.conns[i].peer_shutdown {
                    return; // documented: PeerSocketShutdown
                }
                if r != Ok(()) {
                    self.v("C18", "local_op_failed", format!("{} returned {:?}", name, r));
                    return;
                }
                self.expect_tx(&sent, name, &[(op, peer, local)]);
                if which == 0 {
                    if let Some(p) = sent.first() {
                        if p.flags != 3 {
                            self.v("C18", "shutdown_flags_wrong", format!("shutdown sent flags {:#x}", p.flags));
                        }
                    }
                }
                if which == 1 {
                    self.conns.swap_remove(i);
                }
            }
        }
    }
}

fn case_generic<const RX: usize>(case: u64, seed: u64, focus: Focus, steps: usize, want_sample: bool) -> CaseOut {
    let mut rng = Rng::derive(seed, 0xC17, case, focus as u64);
    let wrap = matches!(focus, Focus::WrapTx | Focus::WrapRx);
    mem::reset(if wrap { HalMode::Identity } else { HalMode::Bounce });
    hooks::clear();
    let kind = if wrap { TKind::Model } else { *rng.pick(&[TKind::Model, TKind::Model, TKind::MmioModern, TKind::Pci, TKind::MmioLegacy]) };
    let mut x = case;
    let fbits = crate::rng::splitmix64(&mut x);
    let mut offered = devsim::F_VERSION_1 | 1;
    if fbits & 1 != 0 {
        offered |= devsim::F_INDIRECT;
    }
    if fbits & 2 != 0 {
        offered |= devsim::F_EVENT_IDX;
    }
    if kind.legacy() {
        offered &= !devsim::F_VERSION_1;
    }
    let policy = *rng.pick(&[Policy::OnNotify, Policy::Polling, Policy::Eager]);
    let mut cfg = vec![0u8; 8];
    cfg.copy_from_slice(&GUEST_CID.to_le_bytes());
    let (rig, t) = xport_any::build(kind, DeviceType::Socket, offered, cfg);
    let dev = Rc::new(RefCell::new(RefVsockDev::new(&rig, policy)));
    dev.borrow_mut().keep_payload = !wrap;
    devsim::install_spin(&dev);
    let mut out = CaseOut { viol: vec![], hash: 0, counters: vec![], sample: None, checked_bytes: 0, nontrivial: false };
    let capacity: u32 = match focus {
        Focus::WrapRx => 65536,
        Focus::WrapTx => 1024,
        Focus::State => *rng.pick(&[64u32, 1024, 4096]),
        Focus::Credit => *rng.pick(&[1u32, 2, 7, 16, 100, 512, 1024, 4096, 65536]),
    };
    let sock = match catch_unwind(AssertUnwindSafe(|| VirtIOSocket::<LedgerHal, AnyT, RX>::new(t))) {
        Ok(Ok(s)) => s,
        other => {
            out.viol.push(DViol { prop: "C18", rule: "construction_failed", detail: format!("VirtIOSocket::new: {:?}", other.map(|r| r.map(|_| ()))) });
            return out;
        }
    };
    if sock.guest_cid() != GUEST_CID {
        out.viol.push(DViol { prop: "C13", rule: "guest_cid_wrong", detail: format!("guest_cid() = {:#x}", sock.guest_cid()) });
    }
    let mgr = VsockConnectionManager::new_with_capacity(sock, capacity);
    let mut w: World<RX> = World { mgr, dev: dev.clone(), conns: vec![], listening: vec![], capacity, viol: vec![], cnt: Default::default(), oplog: vec![], hh: Hash64::new(), inflight: VecDeque::new(), next_conn_id: case * 1000, checked_bytes: 0, keep_oplog: want_sample };
    w.hh.u64(fbits & 3 | (kind as u64) << 8 | (capacity as u64) << 16 | (policy as u64) << 48);
    dev.borrow_mut().observe();
    let peers: Vec<VsockAddr> = [(2u64, 1000u32), (2, 1001), (77, 1000), (0x1_0000_0002, 5)].iter().map(|(c, p)| VsockAddr { cid: *c, port: *p }).collect();
    let ports = [10u32, 11, 12, 4000];
    match focus {
        Focus::WrapTx => {
            // one connection, peer window 2^32-1, consumes instantly; > 4.5 GiB in 192 MiB sends
            let peer = peers[0];
            w.op_connect(peer, 10, u32::MAX);
            let chunk = vec![0u8; 192 << 20];
            let mut total: u64 = 0;
            let mut straddled = false;
            while total < (9u64 << 29) && !w.failed() {
                // Just below 2^32: the peer shrinks its window to 300 MiB and stops consuming, so the bytes in
                // flight straddle the wrap of the 32-bit tx counter (tx_cnt small, peer fwd_cnt just below 2^32).
                // The second send below would put 384 MiB in flight and must be refused (one credit request);
                // op_send's oracle decodes every header against the 64-bit shadow.
                if !straddled && total + 2 * chunk.len() as u64 > (1u64 << 32) {
                    straddled = true;
                    if let Some(i) = w.find(peer, 10) {
                        w.peer_credit_update(i, u64::MAX, Some(300 << 20));
                        w.poll_all();
                        w.op_send(peer, 10, &chunk);
                        total += chunk.len() as u64;
                        w.poll_all();
                        w.op_send(peer, 10, &chunk);
                        w.poll_all();
                        w.op_send(peer, 10, &chunk[..(108 << 20)]);
                        total += 108 << 20;
                        w.poll_all();
                        w.op_send(peer, 10, &chunk[..1]);
                        w.add("sends_with_inflight_straddling_counter_wrap", 4);
                        w.peer_credit_update(i, u64::MAX, Some(u32::MAX));
                        w.poll_all();
                    }
                    continue;
                }
                w.op_send(peer, 10, &chunk);
                total += chunk.len() as u64;
                if let Some(i) = w.find(peer, 10) {
                    w.peer_credit_update(i, u64::MAX, None);
                    w.poll_all();
                }
            }
            // after the wrap a refused send must still work as before
            if let Some(i) = w.find(peer, 10) {
                w.peer_credit_update(i, u64::MAX, Some(100));
                w.poll_all();
                w.op_send(peer, 10, &chunk[..101]);
                w.op_send(peer, 10, &chunk[..100]);
                w.add("tx_counter_wraps", w.conns[i].tx_total >> 32);
            }
        }
        Focus::WrapRx => {
            let peer = peers[0];
            w.op_connect(peer, 10, 4096);
            let mut total: u64 = 0;
            while total < (9u64 << 29) && !w.failed() {
                let Some(i) = w.find(peer, 10) else { break };
                let n = w.peer_send_data(i, RX - HDR);
                w.poll_all();
                w.op_recv(peer, 10, RX);
                // the driver tells the peer about the space it freed
                w.op_simple(2, peer, 10);
                total += n as u64;
                if n == 0 && w.conns[i].buffered() == 0 {
                    w.v("C17", "peer_starved", "a credit-respecting peer cannot send although everything was read and a credit update was sent".into());
                }
            }
            if let Some(i) = w.find(peer, 10) {
                w.add("fwd_counter_wraps", w.conns[i].read_total >> 32);
            }
        }
        _ => {
            for _ in 0..steps {
                if w.failed() {
                    break;
                }
                let peer = *rng.pick(&peers);
                let local = *rng.pick(&ports);
                let r = rng.below(100);
                w.hh.u64(r | (peer.port as u64) << 8 | (local as u64) << 40);
                let have: Vec<usize> = (0..w.conns.len()).collect();
                match r {
                    0..=5 => {
                        if rng.bool() {
                            w.mgr.listen(local);
                            if !w.listening.contains(&local) {
                                w.listening.push(local);
                            }
                        } else {
                            w.mgr.unlisten(local);
                            w.listening.retain(|p| *p != local);
                        }
                    }
                    6..=13 => {
                        let alloc = *rng.pick(&[0u32, 1, 10, 100, 4096, 65536, u32::MAX]);
                        w.op_connect(peer, local, alloc);
                    }
                    14..=21 => {
                        // peer connection request; occasionally a duplicate one for an existing connection
                        // (only isolation of the *other* connections is checked then)
                        if !have.is_empty() && rng.chance(1, 5) {
                            let c = w.conns[*rng.pick(&have)].clone();
                            if c.buffered() == 0 && !c.peer_shutdown {
                                w.poll_all();
                                w.inject(c.peer, GUEST_CID, c.local, 1, &[], None, None, 1, false);
                                w.poll_all();
                            }
                        } else if w.find(peer, local).is_none() {
                            w.inject(peer, GUEST_CID, local, 1, &[], None, None, 1, false);
                            w.poll_all();
                        }
                    }
                    22..=41 => {
                        // send on a known connection most of the time
                        let (p, l) = if !have.is_empty() && rng.chance(9, 10) { let c = &w.conns[*rng.pick(&have)]; (c.peer, c.local) } else { (peer, local) };
                        let len = match rng.below(6) {
                            0 => 1,
                            1 => 4096,
                            2 => rng.range(1, 20) as usize,
                            _ => rng.range(1, 300) as usize,
                        };
                        let mut data = vec![0u8; len];
                        rng.fill(&mut data);
                        w.op_send(p, l, &data);
                    }
                    42..=56 => {
                        if !have.is_empty() {
                            let i = *rng.pick(&have);
                            if w.conns[i].established && !w.conns[i].peer_shutdown {
                                let want = match rng.below(4) {
                                    0 => 1,
                                    1 => RX,
                                    _ => rng.range(1, 200) as usize,
                                };
                                w.peer_send_data(i, want);
                                if rng.chance(2, 3) {
                                    w.poll_all();
                                }
                            }
                        }
                    }
                    57..=68 => {
                        let (p, l) = if !have.is_empty() && rng.chance(9, 10) { let c = &w.conns[*rng.pick(&have)]; (c.peer, c.local) } else { (peer, local) };
                        w.poll_all();
                        let n = match rng.below(5) {
                            0 => 0,
                            1 => 2 * capacity as usize + 1,
                            _ => rng.range(1, 400) as usize,
                        };
                        w.op_recv(p, l, n);
                    }
                    69..=76 => {
                        if !have.is_empty() {
                            let i = *rng.pick(&have);
                            if !w.conns[i].peer_shutdown {
                                let in_flight = w.conns[i].tx_total - w.conns[i].peer_fwd_total;
                                let consume = if rng.bool() { in_flight } else { rng.below(in_flight + 1) };
                                // the window may also shrink, but never below what is still in flight after consuming
                                let left = in_flight - consume;
                                let new_alloc = if rng.chance(1, 3) { Some(((left + rng.below(5000)) as u32).max(left as u32)) } else { None };
                                w.peer_credit_update(i, consume, new_alloc);
                                w.poll_all();
                            }
                        }
                    }
                    77..=80 => {
                        if !have.is_empty() {
                            let i = *rng.pick(&have);
                            let c = w.conns[i].clone();
                            if !c.peer_shutdown {
                                w.inject(c.peer, GUEST_CID, c.local, 7, &[], None, None, 1, false);
                                w.poll_all();
                            }
                        }
                    }
                    81..=85 => {
                        let (p, l) = if !have.is_empty() && rng.chance(4, 5) { let c = &w.conns[*rng.pick(&have)]; (c.peer, c.local) } else { (peer, local) };
                        w.poll_all();
                        w.op_simple(rng.below(3), p, l);
                    }
                    86..=89 => {
                        // peer shutdown / reset of a known connection (no further peer traffic afterwards)
                        if !have.is_empty() {
                            let i = *rng.pick(&have);
                            let c = w.conns[i].clone();
                            if !c.peer_shutdown {
                                w.poll_all();
                                // a reset with data buffered is unspecified: only reset drained connections
                                let op = if c.buffered() == 0 && rng.bool() { 3 } else { 4 };
                                w.inject(c.peer, GUEST_CID, c.local, op, &[], None, None, 1, false);
                                w.poll_all();
                            }
                        }
                    }
                    90..=94 => {
                        // packets that match no connection: unknown tuple, foreign destination cid
                        let op = *rng.pick(&[2u16, 3, 4, 5, 6, 7]);
                        let payload = if op == 5 { vec![0xEE; rng.range(1, 50) as usize] } else { vec![] };
                        let unknown_peer = VsockAddr { cid: 999, port: rng.below(5) as u32 };
                        if rng.bool() {
                            w.inject(unknown_peer, GUEST_CID, local, op, &payload, None, None, 1, false);
                        } else if !have.is_empty() {
                            let c = w.conns[*rng.pick(&have)].clone();
                            // right ports, wrong destination cid
                            w.inject(c.peer, GUEST_CID + 1, c.local, op, &payload, None, None, 1, false);
                        } else {
                            w.inject(peer, GUEST_CID + 7, local, 1, &[], None, None, 1, false);
                        }
                        w.poll_all();
                    }
                    95..=97 => {
                        // malformed packets: op 0, op > 7, control packet with data, truncated header, len field > used
                        let c = if !have.is_empty() { let c = &w.conns[*rng.pick(&have)]; (c.peer, c.local) } else { (peer, local) };
                        match rng.below(5) {
                            0 => w.inject(c.0, GUEST_CID, c.1, 0, &[], None, None, 1, true),
                            1 => w.inject(c.0, GUEST_CID, c.1, 8 + rng.below(1000) as u16, &[], None, None, 1, true),
                            2 => w.inject(c.0, GUEST_CID, c.1, *rng.pick(&[1u16, 2, 3, 4, 6, 7]), &[1, 2, 3], None, None, 1, true),
                            3 => w.inject(c.0, GUEST_CID, c.1, 5, &[9; 20], None, Some(rng.below(44) as u32), 1, true),
                            _ => w.inject(c.0, GUEST_CID, c.1, 5, &[9; 20], Some(21 + rng.below(1 << 31) as u32), None, 1, true),
                        };
                        w.poll_all();
                    }
                    _ => {
                        // a poll with nothing delivered
                        w.poll_all();
                        w.poll_once();
                    }
                }
            }
            w.poll_all();
            // final: everything the peers sent must be readable, in order
            if !w.failed() {
                let all: Vec<(VsockAddr, u32, u64)> = w.conns.iter().map(|c| (c.peer, c.local, c.buffered())).collect();
                for (p, l, b) in all {
                    if b > 0 {
                        w.op_recv(p, l, b as usize);
                    }
                }
            }
        }
    }
    hooks::clear();
    let neg = devsim::negotiated(&rig);
    let World { mgr, viol, cnt, oplog, hh, checked_bytes, .. } = w;
    let _ = catch_unwind(AssertUnwindSafe(move || drop(mgr)));
    out.viol = viol;
    for (r, d) in rig.take_register_violations() {
        out.viol.push(DViol { prop: if rig.kind == TKind::Pci { "C11" } else { "C10" }, rule: r, detail: d });
    }
    for v in mem::with(|l| l.take_violations()) {
        out.viol.push(DViol { prop: "C04", rule: v.rule, detail: v.detail });
    }
    out.viol.extend(dev.borrow().viol.iter().cloned());
    for v in out.viol.iter_mut() {
        v.detail = format!("{} [focus {:?} capacity {} rx buffer {} transport {} policy {:?} features {:#x} case {}]", v.detail, focus, capacity, RX, kind.name(), policy, neg, case);
    }
    out.hash = hh.finish();
    out.checked_bytes = checked_bytes;
    out.nontrivial = checked_bytes > 0 || cnt.get("polls").copied().unwrap_or(0) > 0;
    out.counters = cnt.into_iter().collect();
    out.counters.push(("stream_bytes_read_and_checked", checked_bytes));
    if want_sample {
        out.sample = Some(J::obj().with("case", J::u(case)).with("focus", J::s(format!("{:?}", focus))).with("capacity", J::u(capacity as u64)).with("transport", J::s(kind.name())).with("first_operations", J::arr(oplog.iter().take(14).map(|s| J::s(s.clone())))));
    }
    crate::mmio_bus::reset();
    out
}

pub fn one_case(prop: &str, case: u64, seed: u64, thorough: bool, build: &str, want_sample: bool) -> CaseOut {
    let miri = build.starts_with("miri");
    let steps = if miri { 40 } else if thorough { 3000 } else { 600 };
    if prop == "C18" {
        return case_generic::<512>(case, seed, Focus::State, steps, want_sample);
    }
    // C17: wrap runs are cases 0 (tx) and 1 (rx, thorough or release build only)
    if case == 0 && !miri {
        return case_generic::<512>(case, seed, Focus::WrapTx, 0, want_sample);
    }
    if case == 1 && !miri && (thorough || build == "release") {
        return case_generic::<65536>(case, seed, Focus::WrapRx, 0, want_sample);
    }
    if case % 5 == 4 {
        case_generic::<128>(case, seed, Focus::Credit, steps, want_sample)
    } else {
        case_generic::<512>(case, seed, Focus::Credit, steps, want_sample)
    }
}

pub fn run(args: &Args, sh: &mut Shard) {
    // under Miri: model transports only (see xport_any::set_model_only), tiny workloads
    crate::xport_any::set_model_only(args.is_miri());
    if let Some(r) = &args.replay {
        let case = r.get("case").and_then(|x| x.as_u64()).unwrap_or(0);
        let o = one_case(&args.prop, case, args.seed, args.thorough(), &args.build, true);
        println!("REPLAY case {}: {:#?} sample {:?}", case, o.viol, o.sample.map(|s| s.to_string()));
        for v in o.viol {
            sh.violation(Violation { prop: v.prop.into(), signature: format!("{}/{}", v.prop, v.rule), detail: v.detail, replay: r.clone() });
        }
        sh.evaluations = 1;
        return;
    }
    let n = if args.is_miri() { 48 } else { args.scaled(if args.thorough() { 60_000 } else { 4_800 }) };
    let mut case = args.shard;
    while case < n {
        let o = one_case(&args.prop, case, args.seed, args.thorough(), &args.build, sh.want_sample() && case > 1);
        sh.evaluations += 1;
        for (k, v) in &o.counters {
            sh.inc(k, *v);
        }
        if o.nontrivial {
            sh.nontrivial.insert(o.hash ^ case.wrapping_mul(0x9e3779b97f4a7c15));
        }
        if let Some(s) = o.sample {
            sh.sample(s);
        }
        for v in o.viol {
            sh.violation(Violation { prop: v.prop.into(), signature: format!("{}/{}", v.prop, v.rule), detail: v.detail, replay: J::obj().with("case", J::u(case)).with("build", J::s(args.build.clone())) });
        }
        if sh.violations.len() >= 8 {
            return;
        }
        case += args.nshards;
    }
}
