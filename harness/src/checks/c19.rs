//! C19 — event queues deliver each device event once, in completion order, and stay fully stocked.
use super::Args;
use crate::devsim::{self, DViol, Policy, QSrv};
use crate::hooks;
use crate::json::J;
use crate::mem::{self, HalMode, LedgerHal};
use crate::report::{Shard, Violation};
use crate::rng::{Hash64, Rng};
use crate::xport_any::{self, AnyT, TKind};
use crate::xport_model::{ModelState, ModelTransport};
use std::collections::VecDeque;
use std::panic::{AssertUnwindSafe, catch_unwind};
use virtio_drivers::Error;
use virtio_drivers::device::input::VirtIOInput;
use virtio_drivers::device::sound::{NotificationType, VirtIOSound};
use virtio_drivers::queue::{OwningQueue, VirtQueue};
use virtio_drivers::transport::DeviceType;

pub struct CaseOut {
    pub viol: Vec<DViol>,
    pub hash: u64,
    pub counters: Vec<(&'static str, u64)>,
    pub sample: Option<J>,
    pub events: u64,
}

fn event_bytes(id: u64, len: usize) -> Vec<u8> {
    let mut r = Rng::new(id ^ 0xe7e7);
    let mut v = vec![0u8; len];
    r.fill(&mut v);
    if len >= 4 {
        v[..4].copy_from_slice(&(id as u32).to_le_bytes());
    }
    v
}

/// Device side for one stocked queue: completes posted buffers in any order and remembers the order.
struct Stocked {
    q: QSrv,
    size: usize,
    bufsize: usize,
    next_id: u64,
    /// completion order: (head, event id, written length)
    fifo: VecDeque<(u16, u64, usize)>,
    viol: Vec<DViol>,
    reposts_checked: u64,
}

impl Stocked {
    fn observe(&mut self) {
        if self.q.pending() > 0 {
            let before: Vec<u16> = self.q.held.iter().map(|c| c.head).collect();
            if let Err(e) = self.q.fetch_all() {
                self.viol.push(DViol { prop: "C01", rule: "chain_malformed", detail: e });
                return;
            }
            for ch in self.q.held.iter().skip(before.len()) {
                if ch.readable_len() != 0 || ch.writable_len() != self.bufsize || ch.elems.len() != 1 {
                    self.viol.push(DViol { prop: "C19", rule: "posted_buffer_shape", detail: format!("posted chain {:?}, buffer size is {}", ch.elems, self.bufsize) });
                }
            }
        }
    }
    fn posted(&self) -> usize {
        self.q.held.len() + self.q.pending() as usize
    }
    /// Complete the posted buffer at position `pick` with `len` bytes of a fresh event (or given bytes).
    fn complete(&mut self, pick: usize, len: usize, bytes: Option<Vec<u8>>) -> Option<(u16, u64, usize)> {
        self.observe();
        if self.q.held.is_empty() {
            return None;
        }
        let i = pick % self.q.held.len();
        let id = self.next_id;
        self.next_id += 1;
        let data = bytes.unwrap_or_else(|| event_bytes(id, len));
        let head = self.q.held[i].head;
        if let Err(e) = self.q.complete_at(i, &data, Some(data.len() as u32)) {
            self.viol.push(DViol { prop: "C04", rule: "device_cannot_write_buffer", detail: e });
            return None;
        }
        self.fifo.push_back((head, id, data.len()));
        Some((head, id, data.len()))
    }
    /// After the driver consumed the event at the front: it must have re-posted under the same token.
    fn check_repost(&mut self, head: u16, unpolled: usize) {
        self.observe();
        self.reposts_checked += 1;
        match self.q.held.back() {
            Some(ch) if ch.head == head => {}
            other => self.viol.push(DViol { prop: "C19", rule: "not_reposted_under_same_token", detail: format!("after delivering the event in buffer {} the newest posted chain is {:?}", head, other.map(|c| c.head)) }),
        }
        if self.posted() + unpolled != self.size {
            self.viol.push(DViol { prop: "C19", rule: "queue_not_fully_stocked", detail: format!("{} buffers posted + {} completed-unpolled != queue size {}", self.posted(), unpolled, self.size) });
        }
    }
}

fn owning_case<const S: usize, const B: usize>(case: u64, seed: u64, want_sample: bool) -> CaseOut {
    let mut rng = Rng::derive(seed, 0xC19, case, 0);
    mem::reset(HalMode::Bounce);
    hooks::clear();
    let mut out = CaseOut { viol: vec![], hash: 0, counters: vec![], sample: None, events: 0 };
    let mut x = case;
    let fbits = crate::rng::splitmix64(&mut x);
    let (indirect, event_idx) = (fbits & 1 != 0, fbits & 2 != 0);
    let st = ModelState::new(DeviceType::Input, 0);
    st.borrow_mut().driver_features = Some(if indirect { devsim::F_INDIRECT } else { 0 } | if event_idx { devsim::F_EVENT_IDX } else { 0 });
    let mut t = ModelTransport::new(&st);
    let q = match VirtQueue::<LedgerHal, S>::new(&mut t, 0, indirect, event_idx, false) {
        Ok(q) => q,
        Err(e) => {
            out.viol.push(DViol { prop: "C06", rule: "queue_creation_failed", detail: format!("{:?}", e) });
            return out;
        }
    };
    let mut oq = match catch_unwind(AssertUnwindSafe(|| OwningQueue::<LedgerHal, S, B>::new(q))) {
        Ok(Ok(o)) => o,
        other => {
            out.viol.push(DViol { prop: "C19", rule: "owning_queue_creation_failed", detail: format!("{:?}", other.map(|r| r.map(|_| ()))) });
            return out;
        }
    };
    let mut dev = Stocked { q: QSrv::new(&st.borrow(), 0, Policy::Eager).unwrap(), size: S, bufsize: B, next_id: case << 20, fifo: VecDeque::new(), viol: vec![], reposts_checked: 0 };
    dev.observe();
    if dev.posted() != S {
        out.viol.push(DViol { prop: "C19", rule: "queue_not_fully_stocked", detail: format!("{} buffers posted after construction, queue size {}", dev.posted(), S) });
    }
    let mut hh = Hash64::new();
    hh.u64(S as u64 | (B as u64) << 16 | (fbits & 3) << 40);
    let total_events = if cfg!(miri) { 3 * S as u64 + 2 } else { 100 * S as u64 + rng.below(50) };
    let mut log: Vec<String> = vec![];
    let mut cnt = [0u64; 4];
    while out.events < total_events && out.viol.is_empty() && dev.viol.is_empty() {
        // burst of completions (any posted buffer, any length 0..=B), then polls
        let burst = rng.range(1, S as u64) as usize;
        for _ in 0..burst {
            let len = match rng.below(5) {
                0 => 0,
                1 => B,
                _ => rng.below(B as u64 + 1) as usize,
            };
            let p = rng.next() as usize;
            if let Some((h, id, l)) = dev.complete(p, len, None) {
                hh.u64(h as u64 | (l as u64) << 16);
                if log.len() < 12 {
                    log.push(format!("device completes buffer {} with event {:#x} ({} bytes)", h, id, l));
                }
            }
        }
        let polls = rng.range(1, burst as u64 + 1) as usize;
        for _ in 0..polls {
            let mode = rng.below(10);
            let r = catch_unwind(AssertUnwindSafe(|| {
                oq.poll(&mut t, |b: &[u8]| match mode {
                    0 => Err(Error::IoError),
                    1 => Ok(None),
                    _ => Ok(Some(b.to_vec())),
                })
            }));
            cnt[0] += 1;
            let front = dev.fifo.pop_front();
            match (r, front) {
                (Err(_), _) => out.viol.push(DViol { prop: "C19", rule: "panic_in_poll", detail: "OwningQueue::poll panicked".into() }),
                (Ok(Ok(None)), None) => {}
                (Ok(r), None) => out.viol.push(DViol { prop: "C19", rule: "event_without_completion", detail: format!("poll returned {:?} with nothing completed", r.map(|o| o.map(|v| v.len()))) }),
                (Ok(r), Some((head, id, len))) => {
                    let want = event_bytes(id, len);
                    match (mode, r) {
                        (0, Err(Error::IoError)) | (1, Ok(None)) => cnt[1] += 1,
                        (_, Ok(Some(got))) if mode >= 2 => {
                            if got != want {
                                out.viol.push(DViol { prop: "C19", rule: "event_bytes_wrong", detail: format!("event {:#x} written as {} bytes into buffer {} was delivered as {} bytes (equal: {}): lost, duplicated, out of completion order or wrong length", id, len, head, got.len(), got == want) });
                            }
                            out.events += 1;
                        }
                        (m, r) => out.viol.push(DViol { prop: "C19", rule: "poll_result_wrong", detail: format!("handler mode {} but poll returned {:?}", m, r.map(|o| o.map(|v| v.len()))) }),
                    }
                    dev.check_repost(head, dev.fifo.len());
                }
            }
        }
    }
    // drain and final stock audit
    while let Some((head, id, len)) = dev.fifo.pop_front() {
        if !out.viol.is_empty() || !dev.viol.is_empty() {
            break;
        }
        match oq.poll(&mut t, |b: &[u8]| Ok(Some(b.to_vec()))) {
            Ok(Some(got)) if got == event_bytes(id, len) => out.events += 1,
            other => out.viol.push(DViol { prop: "C19", rule: "event_bytes_wrong", detail: format!("drain: event {:#x} delivered as {:?}", id, other.map(|o| o.map(|v| v.len()))) }),
        }
        dev.check_repost(head, dev.fifo.len());
    }
    out.viol.extend(dev.viol.iter().cloned());
    for v in mem::with(|l| l.take_violations()) {
        out.viol.push(DViol { prop: "C04", rule: v.rule, detail: v.detail });
    }
    drop(oq);
    drop(t);
    for v in out.viol.iter_mut() {
        v.detail = format!("{} [OwningQueue<{}, {}> indirect={} event_idx={} case {}]", v.detail, S, B, indirect, event_idx, case);
    }
    out.hash = hh.finish();
    out.counters = vec![("owning_polls", cnt[0]), ("owning_handler_rejections", cnt[1]), ("owning_events_delivered_and_compared", out.events), ("repost_checks", dev.reposts_checked), ("owning_cases", 1)];
    if want_sample {
        out.sample = Some(J::obj().with("case", J::u(case)).with("target", J::s(format!("OwningQueue<SIZE={}, BUFFER_SIZE={}>", S, B))).with("first_operations", J::arr(log.into_iter().map(J::s))));
    }
    out
}

fn input_case(case: u64, seed: u64, want_sample: bool) -> CaseOut {
    let mut rng = Rng::derive(seed, 0xC19B, case, 0);
    mem::reset(HalMode::Bounce);
    hooks::clear();
    let mut out = CaseOut { viol: vec![], hash: 0, counters: vec![], sample: None, events: 0 };
    let kind = *rng.pick(&[TKind::Model, TKind::MmioModern, TKind::Pci, TKind::MmioLegacy]);
    let mut x = case;
    let fbits = crate::rng::splitmix64(&mut x);
    let mut offered = devsim::F_VERSION_1;
    if fbits & 1 != 0 {
        offered |= devsim::F_INDIRECT;
    }
    if fbits & 2 != 0 {
        offered |= devsim::F_EVENT_IDX;
    }
    if kind.legacy() {
        offered &= !devsim::F_VERSION_1;
    }
    let (rig, t) = xport_any::build(kind, DeviceType::Input, offered, vec![0u8; 136]);
    let mut inp = match catch_unwind(AssertUnwindSafe(|| VirtIOInput::<LedgerHal, AnyT>::new(t))) {
        Ok(Ok(i)) => i,
        other => {
            out.viol.push(DViol { prop: "C19", rule: "construction_failed", detail: format!("VirtIOInput::new: {:?}", other.map(|r| r.map(|_| ()))) });
            return out;
        }
    };
    let mut dev = Stocked { q: QSrv::new(&rig.st.borrow(), 0, Policy::Eager).unwrap(), size: 32, bufsize: 8, next_id: 1, fifo: VecDeque::new(), viol: vec![], reposts_checked: 0 };
    dev.observe();
    if dev.posted() != 32 {
        out.viol.push(DViol { prop: "C19", rule: "queue_not_fully_stocked", detail: format!("{} event buffers posted after construction", dev.posted()) });
    }
    let mut hh = Hash64::new();
    hh.u64(kind as u64 | (fbits & 3) << 8);
    let total = 3200 + rng.below(100);
    let mut polls = 0u64;
    let mut short = 0u64;
    while out.events < total && out.viol.is_empty() && dev.viol.is_empty() {
        let burst = rng.range(1, 32) as usize;
        for _ in 0..burst {
            let id = dev.next_id;
            let mut b = vec![0u8; 8];
            b[0..2].copy_from_slice(&((id % 7) as u16).to_le_bytes());
            b[2..4].copy_from_slice(&((id >> 3) as u16).to_le_bytes());
            b[4..8].copy_from_slice(&(id as u32).to_le_bytes());
            let p = rng.next() as usize;
            // every written length up to the buffer size: one event in eight is short (0..7 bytes written)
            if p >> 40 & 7 == 0 {
                b.truncate((p >> 44 & 7) as usize);
            }
            if let Some((h, _, _)) = dev.complete(p, b.len(), Some(b)) {
                hh.u64(h as u64);
            }
        }
        let n = rng.range(1, burst as u64 + 2) as usize;
        for _ in 0..n {
            let r = catch_unwind(AssertUnwindSafe(|| inp.pop_pending_event()));
            polls += 1;
            let front = dev.fifo.pop_front();
            match (r, front) {
                (Err(_), _) => out.viol.push(DViol { prop: "C19", rule: "panic_in_poll", detail: "pop_pending_event panicked".into() }),
                (Ok(None), None) => {}
                (Ok(Some(e)), None) => out.viol.push(DViol { prop: "C19", rule: "event_without_completion", detail: format!("pop_pending_event returned {:?} with nothing completed", e) }),
                (Ok(None), Some((h, id, _))) => out.viol.push(DViol { prop: "C19", rule: "event_lost", detail: format!("event {} completed in buffer {} but pop_pending_event returned None", id, h) }),
                (Ok(Some(e)), Some((h, id, len))) => {
                    // exactly the bytes the device wrote: compare the written prefix (the event struct is always 8 bytes)
                    let mut want = vec![0u8; 8];
                    want[0..2].copy_from_slice(&((id % 7) as u16).to_le_bytes());
                    want[2..4].copy_from_slice(&((id >> 3) as u16).to_le_bytes());
                    want[4..8].copy_from_slice(&(id as u32).to_le_bytes());
                    let mut got = vec![0u8; 8];
                    got[0..2].copy_from_slice(&e.event_type.to_le_bytes());
                    got[2..4].copy_from_slice(&e.code.to_le_bytes());
                    got[4..8].copy_from_slice(&e.value.to_le_bytes());
                    if got[..len.min(8)] != want[..len.min(8)] {
                        out.viol.push(DViol { prop: "C19", rule: "event_bytes_wrong", detail: format!("event #{} (buffer {}, {} bytes written) delivered as {:?}", id, h, len, e) });
                    }
                    if len < 8 {
                        short += 1;
                    }
                    out.events += 1;
                    dev.check_repost(h, dev.fifo.len());
                }
            }
        }
    }
    hooks::clear();
    out.viol.extend(dev.viol.iter().cloned());
    let _ = catch_unwind(AssertUnwindSafe(move || drop(inp)));
    for (r, d) in rig.take_register_violations() {
        if r == "access_outside_windows" || kind.uses_bus() {
            out.viol.push(DViol { prop: if rig.kind == TKind::Pci { "C11" } else { "C10" }, rule: r, detail: d });
        }
    }
    for v in mem::with(|l| l.take_violations()) {
        out.viol.push(DViol { prop: "C04", rule: v.rule, detail: v.detail });
    }
    for v in out.viol.iter_mut() {
        v.detail = format!("{} [VirtIOInput transport {} offered {:#x} case {}]", v.detail, kind.name(), offered, case);
    }
    out.hash = hh.finish();
    out.counters = vec![("input_polls", polls), ("input_events_delivered_and_compared", out.events), ("repost_checks", dev.reposts_checked), ("input_cases", 1), ("input_short_events", short)];
    if want_sample {
        out.sample = Some(J::obj().with("case", J::u(case)).with("target", J::s("VirtIOInput::pop_pending_event")).with("transport", J::s(kind.name())).with("events", J::u(out.events)));
    }
    crate::mmio_bus::reset();
    out
}

fn sound_case(case: u64, seed: u64, want_sample: bool) -> CaseOut {
    let mut rng = Rng::derive(seed, 0xC19C, case, 0);
    mem::reset(HalMode::Bounce);
    hooks::clear();
    let mut out = CaseOut { viol: vec![], hash: 0, counters: vec![], sample: None, events: 0 };
    let kind = *rng.pick(&[TKind::Model, TKind::MmioModern, TKind::Pci]);
    let mut x = case;
    let fbits = crate::rng::splitmix64(&mut x);
    let mut offered = devsim::F_VERSION_1;
    if fbits & 1 != 0 {
        offered |= devsim::F_INDIRECT;
    }
    if fbits & 2 != 0 {
        offered |= devsim::F_EVENT_IDX;
    }
    let mut cfg = vec![0u8; 12];
    cfg[4] = 2;
    let (rig, t) = xport_any::build(kind, DeviceType::Sound, offered, cfg);
    let mut snd = match catch_unwind(AssertUnwindSafe(|| VirtIOSound::<LedgerHal, AnyT>::new(t))) {
        Ok(Ok(s)) => s,
        other => {
            out.viol.push(DViol { prop: "C19", rule: "construction_failed", detail: format!("VirtIOSound::new: {:?}", other.map(|r| r.map(|_| ()))) });
            return out;
        }
    };
    let mut dev = Stocked { q: QSrv::new(&rig.st.borrow(), 1, Policy::Eager).unwrap(), size: 32, bufsize: 8, next_id: 1, fifo: VecDeque::new(), viol: vec![], reposts_checked: 0 };
    dev.observe();
    if dev.posted() != 32 {
        out.viol.push(DViol { prop: "C19", rule: "queue_not_fully_stocked", detail: format!("{} notification buffers posted after construction", dev.posted()) });
    }
    let mut hh = Hash64::new();
    hh.u64(kind as u64 | (fbits & 3) << 8);
    let total = 3200 + rng.below(100);
    let codes = [0x1000u32, 0x1001, 0x1100, 0x1101];
    let mut kinds: VecDeque<(u32, u32, usize)> = VecDeque::new(); // (code, data, written len)
    let mut polls = 0u64;
    let mut odd = 0u64;
    while out.events < total && out.viol.is_empty() && dev.viol.is_empty() {
        let burst = rng.range(1, 32) as usize;
        for _ in 0..burst {
            let id = dev.next_id;
            let (code, len) = match rng.below(20) {
                0 => (0x1234u32, 8usize), // unknown code -> Err(IoError), buffer still re-posted
                1 => (codes[0], 4),      // short write -> ignored
                2 => (codes[1], 0),
                _ => (codes[(id % 4) as usize], 8),
            };
            let mut b = vec![0u8; 8];
            b[0..4].copy_from_slice(&code.to_le_bytes());
            b[4..8].copy_from_slice(&(id as u32).to_le_bytes());
            b.truncate(len);
            let p = rng.next() as usize;
            if let Some((h, _, _)) = dev.complete(p, len, Some(b)) {
                hh.u64(h as u64 | (code as u64) << 16);
                kinds.push_back((code, id as u32, len));
            }
        }
        let n = rng.range(1, burst as u64 + 2) as usize;
        for _ in 0..n {
            let r = catch_unwind(AssertUnwindSafe(|| snd.latest_notification()));
            polls += 1;
            let front = dev.fifo.pop_front();
            let k = if front.is_some() { kinds.pop_front() } else { None };
            match (r, front, k) {
                (Err(_), _, _) => out.viol.push(DViol { prop: "C19", rule: "panic_in_poll", detail: "latest_notification panicked".into() }),
                (Ok(Ok(None)), None, _) => {}
                (Ok(r), None, _) => out.viol.push(DViol { prop: "C19", rule: "event_without_completion", detail: format!("latest_notification returned {:?} with nothing completed", r) }),
                (Ok(r), Some((h, _, _)), Some((code, data, len))) => {
                    let want_type = match code {
                        0x1000 => Some(NotificationType::JackConnected),
                        0x1001 => Some(NotificationType::JackDisconnected),
                        0x1100 => Some(NotificationType::PcmPeriodElapsed),
                        0x1101 => Some(NotificationType::PcmXrun),
                        _ => None,
                    };
                    match (len, want_type, r) {
                        (8, Some(t), Ok(Some(n))) if n.notification_type() == t && n.data() == data => out.events += 1,
                        (8, None, Err(Error::IoError)) => odd += 1,
                        (l, _, Ok(None)) if l != 8 => odd += 1,
                        (l, t, r) => out.viol.push(DViol { prop: "C19", rule: "event_bytes_wrong", detail: format!("notification code {:#x} data {} written as {} bytes (expected type {:?}) was delivered as {:?}", code, data, l, t, r) }),
                    }
                    dev.check_repost(h, dev.fifo.len());
                }
                _ => {}
            }
        }
    }
    hooks::clear();
    out.viol.extend(dev.viol.iter().cloned());
    let _ = catch_unwind(AssertUnwindSafe(move || drop(snd)));
    for (r, d) in rig.take_register_violations() {
        out.viol.push(DViol { prop: if rig.kind == TKind::Pci { "C11" } else { "C10" }, rule: r, detail: d });
    }
    for v in mem::with(|l| l.take_violations()) {
        out.viol.push(DViol { prop: "C04", rule: v.rule, detail: v.detail });
    }
    for v in out.viol.iter_mut() {
        v.detail = format!("{} [VirtIOSound notifications transport {} offered {:#x} case {}]", v.detail, kind.name(), offered, case);
    }
    out.hash = hh.finish();
    out.counters = vec![("sound_polls", polls), ("sound_notifications_delivered_and_compared", out.events), ("sound_rejected_or_ignored_events", odd), ("repost_checks", dev.reposts_checked), ("sound_cases", 1)];
    if want_sample {
        out.sample = Some(J::obj().with("case", J::u(case)).with("target", J::s("VirtIOSound::latest_notification")).with("transport", J::s(kind.name())).with("events", J::u(out.events)));
    }
    crate::mmio_bus::reset();
    out
}

pub fn one_case(case: u64, seed: u64, miri: bool, want_sample: bool) -> CaseOut {
    macro_rules! oc {
        ($s:literal, $b:literal) => {
            owning_case::<$s, $b>(case, seed, want_sample)
        };
    }
    let k = if miri { case % 12 } else { case % 20 };
    match k {
        0 => oc!(1, 8),
        1 => oc!(1, 64),
        2 => oc!(1, 512),
        3 => oc!(2, 8),
        4 => oc!(2, 64),
        5 => oc!(2, 512),
        6 => oc!(8, 8),
        7 => oc!(8, 64),
        8 => oc!(8, 512),
        9 => oc!(32, 8),
        10 => oc!(32, 64),
        11 => oc!(32, 512),
        12..=15 => input_case(case, seed, want_sample),
        _ => sound_case(case, seed, want_sample),
    }
}

pub fn run(args: &Args, sh: &mut Shard) {
    if let Some(r) = &args.replay {
        let case = r.get("case").and_then(|x| x.as_u64()).unwrap_or(0);
        let o = one_case(case, args.seed, args.is_miri(), true);
        println!("REPLAY case {}: {:#?} sample {:?}", case, o.viol, o.sample.map(|s| s.to_string()));
        for v in o.viol {
            sh.violation(Violation { prop: v.prop.into(), signature: format!("{}/{}", v.prop, v.rule), detail: v.detail, replay: r.clone() });
        }
        sh.evaluations = 1;
        return;
    }
    let n = args.scaled(if args.is_miri() { 24 } else if args.thorough() { 40_000 } else { 2_000 });
    // cases are strided by a number coprime to 20 so that every shard sees every target kind
    let mut k = args.shard;
    while k < n {
        let case = k;
        let o = one_case(case.wrapping_mul(7).wrapping_add(case / 20), args.seed, args.is_miri(), sh.want_sample());
        sh.evaluations += 1;
        for (kk, v) in &o.counters {
            sh.inc(kk, *v);
        }
        if o.events > 0 {
            sh.nontrivial.insert(o.hash ^ case.wrapping_mul(0x9e3779b97f4a7c15));
        }
        if let Some(s) = o.sample {
            sh.sample(s);
        }
        for v in o.viol {
            sh.violation(Violation { prop: v.prop.into(), signature: format!("{}/{}", v.prop, v.rule), detail: v.detail, replay: J::obj().with("case", J::u(case.wrapping_mul(7).wrapping_add(case / 20))).with("build", J::s(args.build.clone())) });
        }
        if sh.violations.len() >= 8 {
            return;
        }
        k += args.nshards;
    }
}
