//! C20 — command/response drivers (GPU, sound, entropy, clock, 9P) encode requests per specification,
//! in the required order, and check every response.
use super::Args;
use crate::devsim::{self, DViol, Personality, Policy, QSrv};
use crate::hooks;
use crate::json::J;
use crate::mem::{self, HalMode, LedgerHal};
use crate::report::{Shard, Violation};
use crate::rng::{Hash64, Rng};
use crate::xport_any::{self, AnyT, Rig, TKind};
use std::cell::RefCell;
use std::collections::{BTreeMap, VecDeque};
use std::panic::{AssertUnwindSafe, catch_unwind};
use std::rc::Rc;
use virtio_drivers::Error;
use virtio_drivers::device::gpu::VirtIOGpu;
use virtio_drivers::device::rng::VirtIORng;
use virtio_drivers::device::rtc::{ClockType, SmearingVariant, VirtIORtc};
use virtio_drivers::device::sound::{PcmFeatures, PcmFormat, PcmFormats, PcmRate, PcmRates, VirtIOSound};
use virtio_drivers::device::virtio_9p::VirtIO9p;
use virtio_drivers::transport::DeviceType;

/// One parsed request as seen by a reference device: queue, readable bytes, writable capacity.
#[derive(Clone, Debug)]
pub struct Req {
    pub q: u16,
    pub readable: Vec<u8>,
    pub wcap: usize,
    pub n_desc: usize,
}

type Handler = Box<dyn FnMut(&Req) -> (Vec<u8>, Option<u32>)>;

/// Generic command/response device: every chain on every registered queue is handed to `handler`,
/// which returns the response bytes (scattered over the writable part) and optionally the used length.
pub struct CmdDev {
    st: Rc<RefCell<crate::xport_model::ModelState>>,
    pub qs: BTreeMap<u16, QSrv>,
    queues: Vec<u16>,
    policy: Policy,
    pub viol: Vec<DViol>,
    pub log: Vec<Req>,
    pub handler: Option<Handler>,
    /// queues on which chains are held instead of answered immediately (sound tx)
    pub manual: Vec<u16>,
    pub in_spin: bool,
    pub auto_manual_in_spin: bool,
    pub rng: Rng,
    /// see QSrv::switch_after (applied to every queue of a polling device)
    pub switch_after: Option<u64>,
}

impl CmdDev {
    pub fn new(rig: &Rig, queues: &[u16], policy: Policy, seed: u64) -> CmdDev {
        CmdDev { st: rig.st.clone(), qs: BTreeMap::new(), queues: queues.to_vec(), policy, viol: vec![], log: vec![], handler: None, manual: vec![], in_spin: false, auto_manual_in_spin: false, rng: Rng::new(seed), switch_after: None }
    }
    fn ensure(&mut self) {
        let st = self.st.borrow();
        if st.status & 4 == 0 {
            return;
        }
        for q in &self.queues {
            if !self.qs.contains_key(q) {
                if let Some(mut s) = QSrv::new(&st, *q, self.policy) {
                    s.switch_after = self.switch_after;
                    self.qs.insert(*q, s);
                }
            }
        }
    }
    pub fn observe(&mut self) {
        self.ensure();
        let notes = self.st.borrow_mut().take_notifications();
        let mut nv = vec![];
        let mut handler = self.handler.take();
        for (qi, q) in self.qs.iter_mut() {
            if notes.contains(qi) {
                q.notified = true;
            }
            if q.pending() > 0 {
                if q.may_look() {
                    if let Err(e) = q.fetch_all() {
                        nv.push(DViol { prop: "C01", rule: "chain_malformed", detail: e });
                        continue;
                    }
                } else if self.in_spin {
                    nv.push(DViol { prop: "C05", rule: "wait_without_notification", detail: format!("blocking request on queue {} waits on a serve-on-notify device that was not notified", qi) });
                    continue;
                }
            }
            if self.manual.contains(qi) {
                continue;
            }
            while let Some(ch) = q.held.front().cloned() {
                let readable = match q.dev.read_payload(&ch) {
                    Ok(r) => r,
                    Err(e) => {
                        nv.push(DViol { prop: "C04", rule: "device_cannot_read_buffer", detail: e });
                        vec![]
                    }
                };
                let req = Req { q: *qi, readable, wcap: ch.writable_len(), n_desc: ch.elems.len() };
                let (resp, used) = match handler.as_mut() {
                    Some(h) => h(&req),
                    None => (vec![], None),
                };
                self.log.push(req);
                if let Err(e) = q.complete_at(0, &resp, used) {
                    nv.push(DViol { prop: "C04", rule: "device_cannot_write_buffer", detail: e });
                }
            }
        }
        self.handler = handler;
        for v in nv {
            if self.viol.len() < 8 {
                self.viol.push(v);
            }
        }
    }
}

impl CmdDev {
    /// Complete the oldest chain held on a manual (driver-stocked) queue with the given bytes.
    pub fn complete_manual(&mut self, q: u16, data: &[u8]) -> bool {
        self.observe();
        match self.qs.get_mut(&q) {
            Some(s) if !s.held.is_empty() => s.complete_at(0, data, Some(data.len() as u32)).is_ok(),
            _ => false,
        }
    }
}

impl Personality for CmdDev {
    fn step(&mut self) {
        self.in_spin = true;
        self.observe();
        self.in_spin = false;
    }
    fn fatal(&self) -> bool {
        self.viol.iter().any(|v| v.rule == "wait_without_notification" || v.rule == "chain_malformed")
    }
}

pub struct CaseOut {
    pub viol: Vec<DViol>,
    pub hash: u64,
    pub counters: Vec<(&'static str, u64)>,
    pub sample: Option<J>,
    pub checked: u64,
}

fn pick_kind(rng: &mut Rng) -> TKind {
    *rng.pick(&[TKind::Model, TKind::Model, TKind::MmioModern, TKind::Pci, TKind::MmioLegacy, TKind::ModelNoUnset])
}
fn ring_features(fbits: u64, kind: TKind) -> u64 {
    let mut f = devsim::F_VERSION_1;
    if fbits & 1 != 0 {
        f |= devsim::F_INDIRECT;
    }
    if fbits & 2 != 0 {
        f |= devsim::F_EVENT_IDX;
    }
    if kind.legacy() {
        f &= !devsim::F_VERSION_1;
    }
    f
}

struct Ctx {
    rig: Rig,
    dev: Rc<RefCell<CmdDev>>,
    out: CaseOut,
    hh: Hash64,
    cnt: BTreeMap<&'static str, u64>,
    oplog: Vec<String>,
    kind: TKind,
    what: &'static str,
}
impl Ctx {
    fn fail(&mut self, prop: &'static str, rule: &'static str, d: String) {
        if self.out.viol.len() < 8 {
            self.out.viol.push(DViol { prop, rule, detail: d });
        }
    }
    fn inc(&mut self, k: &'static str) {
        *self.cnt.entry(k).or_insert(0) += 1;
    }
    fn failed(&self) -> bool {
        !self.out.viol.is_empty() || !self.dev.borrow().viol.is_empty()
    }
    fn finish(mut self, case: u64, want_sample: bool, extra: String) -> CaseOut {
        hooks::clear();
        for (r, d) in self.rig.take_register_violations() {
            self.out.viol.push(DViol { prop: if matches!(self.rig.kind, TKind::Pci | TKind::SomePci) { "C11" } else { "C10" }, rule: r, detail: d });
        }
        for v in mem::with(|l| l.take_violations()) {
            self.out.viol.push(DViol { prop: "C04", rule: v.rule, detail: v.detail });
        }
        let dv: Vec<DViol> = self.dev.borrow().viol.clone();
        self.out.viol.extend(dv);
        for v in self.out.viol.iter_mut() {
            v.detail = format!("{} [{} transport {} {} case {}]", v.detail, self.what, self.kind.name(), extra, case);
        }
        self.out.hash = self.hh.finish();
        self.out.counters = self.cnt.iter().map(|(k, v)| (*k, *v)).collect();
        if want_sample {
            self.out.sample = Some(J::obj().with("case", J::u(case)).with("device", J::s(self.what)).with("transport", J::s(self.kind.name())).with("first_operations", J::arr(self.oplog.iter().take(12).map(|s| J::s(s.clone())))));
        }
        crate::mmio_bus::reset();
        self.out
    }
}

fn setup(case: u64, seed: u64, tag: u64, dt: DeviceType, extra_features: u64, config: Vec<u8>, queues: &[u16], what: &'static str) -> (Ctx, AnyT, Rng) {
    let mut rng = Rng::derive(seed, 0xC20, case, tag);
    mem::reset(HalMode::Bounce);
    hooks::clear();
    let kind = pick_kind(&mut rng);
    let mut x = case;
    let fbits = crate::rng::splitmix64(&mut x);
    let offered = ring_features(fbits, kind) | extra_features;
    let policy = *rng.pick(&[Policy::OnNotify, Policy::Polling, Policy::Eager]);
    let (rig, t) = xport_any::build(kind, dt, offered, config);
    let dev = Rc::new(RefCell::new(CmdDev::new(&rig, queues, policy, rng.next())));
    // every other polling device stops polling after 1..6 completions and serves on notification from then on
    if policy == Policy::Polling && fbits >> 8 & 1 == 0 {
        dev.borrow_mut().switch_after = Some(1 + (fbits >> 10) % 6);
    }
    devsim::install_spin(&dev);
    let mut hh = Hash64::new();
    hh.u64(tag | (kind as u64) << 8 | (fbits & 3) << 16 | (policy as u64) << 24);
    let ctx = Ctx { rig, dev, out: CaseOut { viol: vec![], hash: 0, counters: vec![], sample: None, checked: 0 }, hh, cnt: BTreeMap::new(), oplog: vec![], kind, what };
    (ctx, t, rng)
}

// ------------------------------------------------------------------------------------------ rng

fn rng_case(case: u64, seed: u64, want_sample: bool) -> CaseOut {
    let (mut c, t, mut rng) = setup(case, seed, 1, DeviceType::EntropySource, 0, vec![], &[0], "entropy");
    let mut drv = match catch_unwind(AssertUnwindSafe(|| VirtIORng::<LedgerHal, AnyT>::new(t))) {
        Ok(Ok(d)) => d,
        other => {
            c.fail("C20", "construction_failed", format!("VirtIORng::new: {:?}", other.map(|r| r.map(|_| ()))));
            return c.finish(case, want_sample, String::new());
        }
    };
    let plan: Rc<RefCell<(usize, u64)>> = Rc::new(RefCell::new((0, 0)));
    let p2 = plan.clone();
    c.dev.borrow_mut().handler = Some(Box::new(move |r: &Req| {
        let (k, seed) = *p2.borrow();
        let k = k.min(r.wcap);
        let mut v = vec![0u8; k];
        Rng::new(seed).fill(&mut v);
        (v, Some(k as u32))
    }));
    for _ in 0..60 {
        if c.failed() {
            break;
        }
        let len = match rng.below(6) {
            0 => 1,
            1 => 65536,
            2 => 4096,
            _ => rng.range(1, 3000) as usize,
        };
        let k = match rng.below(4) {
            0 => len,
            1 => 0,
            _ => rng.below(len as u64 + 1) as usize,
        };
        let s = rng.next();
        *plan.borrow_mut() = (k, s);
        let mut dst = vec![0xCCu8; len];
        let n0 = c.dev.borrow().log.len();
        let r = catch_unwind(AssertUnwindSafe(|| drv.request_entropy(&mut dst)));
        c.hh.u64(len as u64 | (k as u64) << 32);
        c.oplog.push(format!("request_entropy({} bytes), device delivers {}", len, k));
        c.inc("entropy_requests");
        let mut want = vec![0u8; k];
        Rng::new(s).fill(&mut want);
        match r {
            Ok(Ok(n)) => {
                let d = c.dev.borrow();
                let ok_chain = d.log.len() == n0 + 1 && d.log[n0].readable.is_empty() && d.log[n0].wcap == len;
                drop(d);
                if !ok_chain {
                    c.fail("C20", "entropy_request_wrong", format!("request_entropy({}) did not put exactly one all-writable {}-byte chain on the queue", len, len));
                }
                if n != k || dst[..k] != want[..] {
                    c.fail("C20", "entropy_result_wrong", format!("request_entropy returned {} (device delivered {}), bytes equal: {}", n, k, dst[..k.min(n)] == want[..k.min(n)]));
                }
                c.out.checked += 1;
            }
            Ok(Err(e)) => c.fail("C20", "entropy_error", format!("request_entropy failed: {:?}", e)),
            Err(_) => {
                if c.dev.borrow().viol.is_empty() {
                    c.fail("C20", "panic_in_request", "request_entropy panicked".into())
                }
            }
        }
    }
    hooks::clear();
    let _ = catch_unwind(AssertUnwindSafe(move || drop(drv)));
    c.finish(case, want_sample, String::new())
}

// ------------------------------------------------------------------------------------------ rtc

fn rtc_status_map(s: u8) -> Option<Error> {
    match s {
        0 => None,
        2 => Some(Error::Unsupported),
        3 | 4 => Some(Error::InvalidParam),
        5 => Some(Error::IoError),
        _ => Some(Error::IoError),
    }
}

fn rtc_case(case: u64, seed: u64, want_sample: bool) -> CaseOut {
    let (mut c, t, mut rng) = setup(case, seed, 2, DeviceType::Timer, if case % 3 == 0 { 1 } else { 0 }, vec![], &[0], "clock");
    let mut drv = match catch_unwind(AssertUnwindSafe(|| VirtIORtc::<LedgerHal, AnyT>::new(t))) {
        Ok(Ok(d)) => d,
        other => {
            c.fail("C20", "construction_failed", format!("VirtIORtc::new: {:?}", other.map(|r| r.map(|_| ()))));
            return c.finish(case, want_sample, String::new());
        }
    };
    // response plan: (status, payload bytes after the 8-byte head)
    let plan: Rc<RefCell<(u8, Vec<u8>)>> = Rc::new(RefCell::new((0, vec![])));
    let p2 = plan.clone();
    c.dev.borrow_mut().handler = Some(Box::new(move |_r: &Req| {
        let (s, body) = p2.borrow().clone();
        let mut v = vec![s, 0, 0, 0, 0, 0, 0, 0];
        v.extend_from_slice(&body);
        (v, None)
    }));
    let statuses = [0u8, 0, 0, 0, 2, 3, 4, 5, 1, 6, 0xff];
    for _ in 0..60 {
        if c.failed() {
            break;
        }
        let st = *rng.pick(&statuses);
        let n0 = c.dev.borrow().log.len();
        let which = rng.below(3);
        let clock_id = match rng.below(4) {
            0 => 0,
            1 => 0xffff,
            _ => rng.next() as u16,
        };
        c.hh.u64(which | (st as u64) << 8 | (clock_id as u64) << 16);
        let check_req = |c: &mut Ctx, msg: u16, len: usize, has_id: bool, resp_len: usize| {
            let d = c.dev.borrow();
            let ok = d.log.len() == n0 + 1 && {
                let r = &d.log[n0];
                r.readable.len() == len && u16::from_le_bytes([r.readable[0], r.readable[1]]) == msg && r.readable[2..8].iter().all(|b| *b == 0) && (!has_id || (u16::from_le_bytes([r.readable[8], r.readable[9]]) == clock_id && r.readable[10..].iter().all(|b| *b == 0))) && r.wcap == resp_len
            };
            let dbg = format!("{:x?}", d.log.get(n0));
            drop(d);
            if !ok {
                c.fail("C20", "rtc_request_encoding_wrong", format!("message {:#06x} clock {} reached the device as {}", msg, clock_id, dbg));
            }
        };
        match which {
            0 => {
                let num = rng.next() as u16;
                let mut body = num.to_le_bytes().to_vec();
                body.extend_from_slice(&[0; 6]);
                *plan.borrow_mut() = (st, body);
                let r = catch_unwind(AssertUnwindSafe(|| drv.num_clocks()));
                c.oplog.push(format!("num_clocks() status {}", st));
                c.inc("rtc_cfg_requests");
                match r {
                    Ok(r) => {
                        check_req(&mut c, 0x1000, 8, false, 16);
                        let want = match rtc_status_map(st) {
                            None => Ok(num),
                            Some(e) => Err(e),
                        };
                        if r != want {
                            c.fail("C20", "rtc_result_wrong", format!("num_clocks() = {:?}, device answered status {} num_clocks {}", r, st, num));
                        }
                        c.out.checked += 1;
                    }
                    Err(_) => c.fail("C20", "panic_in_request", "num_clocks panicked".into()),
                }
            }
            1 => {
                let ty = rng.below(7) as u8;
                let smear = rng.below(4) as u8;
                let flags = rng.next() as u8;
                *plan.borrow_mut() = (st, vec![ty, smear, flags, 0, 0, 0, 0, 0]);
                let r = catch_unwind(AssertUnwindSafe(|| drv.clock_cap(clock_id)));
                c.oplog.push(format!("clock_cap({}) status {} type {} smearing {}", clock_id, st, ty, smear));
                c.inc("rtc_cap_requests");
                match r {
                    Ok(r) => {
                        check_req(&mut c, 0x1001, 16, true, 16);
                        let want = match rtc_status_map(st) {
                            Some(e) => Err(e),
                            None => {
                                let kind = match ty {
                                    0 => Some(ClockType::Utc),
                                    1 => Some(ClockType::Tai),
                                    2 => Some(ClockType::Monotonic),
                                    3 => Some(ClockType::UtcSmeared),
                                    4 => Some(ClockType::UtcMaybeSmeared),
                                    _ => None,
                                };
                                match kind {
                                    None => Err(Error::Unsupported),
                                    Some(k) => {
                                        let sm = if k == ClockType::UtcSmeared {
                                            match smear {
                                                0 => Ok(None),
                                                1 => Ok(Some(SmearingVariant::NoonLinear)),
                                                2 => Ok(Some(SmearingVariant::UtcSls)),
                                                _ => Err(Error::Unsupported),
                                            }
                                        } else {
                                            Ok(None)
                                        };
                                        sm.map(|s| (k, s, flags & 1 != 0))
                                    }
                                }
                            }
                        };
                        let got = r.map(|x| (x.kind, x.leap_second_smearing, x.alarm_capability));
                        if got != want {
                            c.fail("C20", "rtc_result_wrong", format!("clock_cap() = {:?}, expected {:?}", got, want));
                        }
                        c.out.checked += 1;
                    }
                    Err(_) => c.fail("C20", "panic_in_request", "clock_cap panicked".into()),
                }
            }
            _ => {
                let reading = rng.next();
                *plan.borrow_mut() = (st, reading.to_le_bytes().to_vec());
                let r = catch_unwind(AssertUnwindSafe(|| drv.read(clock_id)));
                c.oplog.push(format!("read({}) status {}", clock_id, st));
                c.inc("rtc_read_requests");
                match r {
                    Ok(r) => {
                        check_req(&mut c, 0x0001, 16, true, 16);
                        let want = match rtc_status_map(st) {
                            None => Ok(reading),
                            Some(e) => Err(e),
                        };
                        if r != want {
                            c.fail("C20", "rtc_result_wrong", format!("read() = {:?}, device answered status {} reading {}", r, st, reading));
                        }
                        c.out.checked += 1;
                    }
                    Err(_) => c.fail("C20", "panic_in_request", "read panicked".into()),
                }
            }
        }
    }
    hooks::clear();
    let _ = catch_unwind(AssertUnwindSafe(move || drop(drv)));
    c.finish(case, want_sample, String::new())
}

// ------------------------------------------------------------------------------------------ 9p

fn p9_case(case: u64, seed: u64, want_sample: bool) -> CaseOut {
    let mut r0 = Rng::derive(seed, 0xC209, case, 0);
    // the tag the device reports: usually lower-case ASCII; one case in six arbitrary bytes (multi-byte UTF-8 or not UTF-8 at all)
    let mut tag_bytes: Vec<u8> = (0..r0.range(1, 24)).map(|i| b'a' + ((r0.next() as u8).wrapping_add(i as u8) % 26)).collect();
    if case / 10 % 6 == 5 {
        let k = r0.below(tag_bytes.len() as u64) as usize;
        match r0.below(3) {
            0 => tag_bytes[k] = 0x80 | (r0.next() as u8 & 0x7f),
            1 => tag_bytes.splice(k..k + 1, "é€".bytes()).for_each(drop),
            _ => r0.fill(&mut tag_bytes),
        }
    }
    let tag_str = String::from_utf8(tag_bytes.clone()).ok();
    let tag: String = tag_str.clone().unwrap_or_else(|| format!("{:x?}", tag_bytes));
    let mut cfg = (tag_bytes.len() as u16).to_le_bytes().to_vec();
    cfg.extend_from_slice(&tag_bytes);
    while cfg.len() % 4 != 0 {
        cfg.push(0);
    }
    let (mut c, t, mut rng) = setup(case, seed, 3, DeviceType::_9P, 1, cfg, &[0], "9p");
    let mut drv = match catch_unwind(AssertUnwindSafe(|| VirtIO9p::<LedgerHal, AnyT>::new(t))) {
        Ok(Ok(d)) => d,
        Ok(Err(_)) if tag_str.is_none() => {
            // a tag that is not text cannot be returned as a string: refusing the device is the documented outcome
            c.inc("p9_non_utf8_tags_refused");
            return c.finish(case, want_sample, format!("tag {}", tag));
        }
        other => {
            c.fail("C20", "construction_failed", format!("VirtIO9p::new: {:?}", other.map(|r| r.map(|_| ()))));
            return c.finish(case, want_sample, String::new());
        }
    };
    // the value returned must be what the device reported, byte for byte
    if drv.mount_tag().as_bytes() != tag_bytes {
        c.fail("C20", "mount_tag_wrong", format!("mount_tag() = {:?}, device reports the bytes {:x?}", drv.mount_tag(), tag_bytes));
    }
    let plan: Rc<RefCell<(Vec<u8>, u32)>> = Rc::new(RefCell::new((vec![], 0)));
    let p2 = plan.clone();
    c.dev.borrow_mut().handler = Some(Box::new(move |_r: &Req| {
        let (b, used) = p2.borrow().clone();
        (b, Some(used))
    }));
    for _ in 0..50 {
        if c.failed() {
            break;
        }
        let reqlen = match rng.below(6) {
            0 => 0,
            _ => rng.range(1, 300) as usize,
        };
        let resplen = match rng.below(6) {
            0 => rng.below(7) as usize,
            _ => rng.range(7, 400) as usize,
        };
        let mut req = vec![0u8; reqlen];
        rng.fill(&mut req);
        let mut resp = vec![0u8; resplen];
        // device response: size field vs used length
        let used = if resplen >= 7 { rng.range(7, resplen as u64) as u32 } else { 0 };
        let size_field = match rng.below(4) {
            0 => used.wrapping_add(1),
            1 => rng.next() as u32,
            _ => used,
        };
        let mut body = vec![0u8; used as usize];
        rng.fill(&mut body);
        if body.len() >= 4 {
            body[..4].copy_from_slice(&size_field.to_le_bytes());
        }
        *plan.borrow_mut() = (body.clone(), used);
        let n0 = c.dev.borrow().log.len();
        let r = catch_unwind(AssertUnwindSafe(|| drv.request(&req, &mut resp)));
        c.hh.u64(reqlen as u64 | (resplen as u64) << 16 | (size_field as u64) << 32);
        c.oplog.push(format!("request({} bytes, response buffer {}) device used {} size field {}", reqlen, resplen, used, size_field));
        c.inc("p9_requests");
        match r {
            Err(_) => c.fail("C20", "panic_in_request", "9p request panicked".into()),
            Ok(r) => {
                let sent = c.dev.borrow().log.len() - n0;
                if reqlen == 0 || resplen < 7 {
                    if r != Err(Error::InvalidParam) || sent != 0 {
                        c.fail("C20", "p9_invalid_param_not_refused", format!("request({}, {}) = {:?} with {} chains sent", reqlen, resplen, r, sent));
                    }
                } else {
                    let d = c.dev.borrow();
                    let ok = sent == 1 && d.log[n0].readable == req && d.log[n0].wcap == resplen;
                    drop(d);
                    if !ok {
                        c.fail("C20", "p9_request_wrong", "request bytes / response capacity differ from the caller's buffers".into());
                    }
                    let want = if size_field == used { Ok(used) } else { Err(Error::IoError) };
                    if r != want {
                        c.fail("C20", "p9_response_check_wrong", format!("request() = {:?} for used length {} and size field {}", r, used, size_field));
                    }
                    if r.is_ok() && resp[..used as usize] != body[..] {
                        c.fail("C20", "p9_response_bytes_wrong", "response bytes differ from what the device wrote".into());
                    }
                    c.out.checked += 1;
                }
            }
        }
    }
    hooks::clear();
    let _ = catch_unwind(AssertUnwindSafe(move || drop(drv)));
    c.finish(case, want_sample, format!("tag {:?}", tag))
}

// ------------------------------------------------------------------------------------------ gpu

#[derive(Default)]
struct GpuModel {
    resources: BTreeMap<u32, GpuRes>,
    scanout: Option<(u32, [u32; 4])>,
    cmds: Vec<(u32, Vec<u32>)>,
    viol: Vec<(&'static str, String)>,
    /// response override for the n-th upcoming command: (type, garbage?)
    force: VecDeque<u32>,
    display: (u32, u32),
    edid: Vec<u8>,
    edid_size: u32,
    cursor_cmds: Vec<Vec<u32>>,
}
#[derive(Clone, Debug)]
struct GpuRes {
    w: u32,
    h: u32,
    backing: Option<(u64, u32)>,
}

fn u32s(b: &[u8]) -> Vec<u32> {
    b.chunks(4).filter(|c| c.len() == 4).map(|c| u32::from_le_bytes(c.try_into().unwrap())).collect()
}

impl GpuModel {
    /// Every attached backing must still be live DMA memory covering the advertised length.
    fn audit_backings(&mut self, when: &str) {
        for (id, r) in self.resources.iter() {
            if let Some((addr, len)) = r.backing {
                let live = mem::with(|l| l.region_of(addr, len as usize)).is_some();
                if !live {
                    self.viol.push(("backing_released_while_attached", format!("{}: resource {:#x} is attached to backing [{:#x},+{}) which is not (or no longer) live DMA memory", when, id, addr, len)));
                }
            }
        }
    }
    fn handle(&mut self, r: &Req) -> Vec<u8> {
        let w = u32s(&r.readable[..r.readable.len().min(96)]);
        let ty = w[0];
        if w[1] != 0 || w[2] != 0 || w[3] != 0 || w[4] != 0 {
            self.viol.push(("gpu_header_fields_nonzero", format!("command {:#x} has flags/fence/ctx {:x?}", ty, &w[1..5])));
        }
        let name = format!("command {:#x}", ty);
        self.audit_backings(&name);
        if r.q == 1 {
            self.cursor_cmds.push(w[..14.min(w.len())].to_vec());
            return vec![];
        }
        self.cmds.push((ty, w[6..16.min(w.len())].to_vec()));
        let mut resp_ty = 0x1100u32;
        let mut body: Vec<u8> = vec![];
        match ty {
            0x100 => {
                resp_ty = 0x1101;
                for v in [0u32, 0, self.display.0, self.display.1, 1, 0] {
                    body.extend_from_slice(&v.to_le_bytes());
                }
            }
            0x101 => {
                let (id, fmt, rw, rh) = (w[6], w[7], w[8], w[9]);
                if fmt != 1 {
                    self.viol.push(("gpu_format_wrong", format!("RESOURCE_CREATE_2D format {}", fmt)));
                }
                if self.resources.contains_key(&id) {
                    resp_ty = 0x1203;
                } else {
                    self.resources.insert(id, GpuRes { w: rw, h: rh, backing: None });
                }
            }
            0x102 => {
                let id = w[6];
                match self.resources.remove(&id) {
                    Some(r) if r.backing.is_some() => self.viol.push(("gpu_order_wrong", format!("RESOURCE_UNREF of {:#x} while backing is attached", id))),
                    Some(_) => {}
                    None => resp_ty = 0x1203,
                }
                if self.scanout.is_some_and(|s| s.0 == id) {
                    self.viol.push(("gpu_order_wrong", format!("RESOURCE_UNREF of {:#x} while it is the scanout", id)));
                }
            }
            0x103 => {
                let rect = [w[6], w[7], w[8], w[9]];
                let (scan, id) = (w[10], w[11]);
                if scan != 0 {
                    self.viol.push(("gpu_scanout_id_wrong", format!("SET_SCANOUT scanout {}", scan)));
                }
                if id == 0 {
                    self.scanout = None;
                } else {
                    match self.resources.get(&id) {
                        Some(r) if r.backing.is_some() => self.scanout = Some((id, rect)),
                        Some(_) => self.viol.push(("gpu_order_wrong", format!("SET_SCANOUT with resource {:#x} before ATTACH_BACKING", id))),
                        None => self.viol.push(("gpu_order_wrong", format!("SET_SCANOUT with unknown resource {:#x} (create must come first)", id))),
                    }
                }
            }
            0x104 => {
                let id = w[10];
                if !self.resources.contains_key(&id) {
                    self.viol.push(("gpu_order_wrong", format!("RESOURCE_FLUSH of unknown resource {:#x}", id)));
                }
            }
            0x105 => {
                let id = w[12];
                if self.resources.get(&id).is_none_or(|r| r.backing.is_none()) {
                    self.viol.push(("gpu_order_wrong", format!("TRANSFER_TO_HOST_2D of resource {:#x} without backing", id)));
                }
            }
            0x106 => {
                let (id, nr) = (w[6], w[7]);
                let addr = w[8] as u64 | (w[9] as u64) << 32;
                let len = w[10];
                if nr != 1 {
                    self.viol.push(("gpu_attach_entries", format!("ATTACH_BACKING nr_entries {}", nr)));
                }
                match self.resources.get_mut(&id) {
                    None => self.viol.push(("gpu_order_wrong", format!("ATTACH_BACKING of unknown resource {:#x}", id))),
                    Some(r) => {
                        let need = r.w as u64 * r.h as u64 * 4;
                        if (len as u64) < need {
                            self.viol.push(("gpu_backing_too_short", format!("backing of {} bytes for a {}x{} resource", len, r.w, r.h)));
                        }
                        r.backing = Some((addr, len));
                    }
                }
                self.audit_backings("ATTACH_BACKING");
            }
            0x107 => {
                let id = w[6];
                match self.resources.get_mut(&id) {
                    Some(r) => r.backing = None,
                    None => resp_ty = 0x1203,
                }
                if self.scanout.is_some_and(|s| s.0 == id) {
                    self.viol.push(("gpu_order_wrong", format!("DETACH_BACKING of {:#x} while it is the scanout", id)));
                }
            }
            0x10a => {
                resp_ty = 0x1104;
                body.extend_from_slice(&self.edid_size.to_le_bytes());
                body.extend_from_slice(&0u32.to_le_bytes());
                let mut e = self.edid.clone();
                e.resize(1024, 0);
                body.extend_from_slice(&e);
            }
            other => {
                self.viol.push(("gpu_unknown_command", format!("command {:#x}", other)));
                resp_ty = 0x1200;
            }
        }
        if let Some(f) = self.force.pop_front() {
            if f != 0 {
                resp_ty = f;
                // a forced error means the device did not perform the command
            }
        }
        let mut resp = vec![];
        for v in [resp_ty, 0, 0, 0, 0, 0] {
            resp.extend_from_slice(&v.to_le_bytes());
        }
        resp.extend_from_slice(&body);
        resp
    }
}

fn edid_reference(data: &[u8], size: u32) -> (Option<(u32, u32)>, Vec<(u32, u32)>) {
    if size < 128 {
        return (None, vec![]);
    }
    let d = &data[0x36..0x36 + 18];
    let h = d[2] as u32 | ((d[4] as u32 & 0xf0) << 4);
    let v = d[5] as u32 | ((d[7] as u32 & 0xf0) << 4);
    let pref = if h == 0 || v == 0 { None } else { Some((h, v)) };
    let mut st: Vec<(u32, u32)> = vec![];
    for i in 0..8 {
        let b = &data[38 + 2 * i..40 + 2 * i];
        if b == [1, 1] {
            continue;
        }
        let hp = (b[0] as u32 + 31) * 8;
        let vp = match (b[1] >> 6) & 3 {
            0 => hp * 10 / 16,
            1 => hp * 3 / 4,
            2 => hp * 4 / 5,
            _ => hp * 9 / 16,
        };
        st.push((hp, vp));
    }
    // stable sort, largest pixel count first
    st.sort_by(|a, b| (b.0 as u64 * b.1 as u64).cmp(&(a.0 as u64 * a.1 as u64)));
    (pref, st)
}

fn gpu_case(case: u64, seed: u64, want_sample: bool, edid_only: bool) -> CaseOut {
    let edid_feat = if case % 4 != 3 { 2 } else { 0 };
    let mut cfg = vec![0u8; 16];
    cfg[8] = 1;
    let (mut c, t, mut rng) = setup(case, seed, 4, DeviceType::GPU, edid_feat, cfg, &[0, 1], "gpu");
    let mut drv = match catch_unwind(AssertUnwindSafe(|| VirtIOGpu::<LedgerHal, AnyT>::new(t))) {
        Ok(Ok(d)) => d,
        other => {
            c.fail("C20", "construction_failed", format!("VirtIOGpu::new: {:?}", other.map(|r| r.map(|_| ()))));
            return c.finish(case, want_sample, String::new());
        }
    };
    let model = Rc::new(RefCell::new(GpuModel { display: (rng.range(1, 300) as u32, rng.range(1, 200) as u32), ..Default::default() }));
    let m2 = model.clone();
    c.dev.borrow_mut().handler = Some(Box::new(move |r: &Req| {
        if r.readable.len() < 24 {
            m2.borrow_mut().viol.push(("gpu_request_too_short", format!("{} readable bytes", r.readable.len())));
            return (vec![], None);
        }
        (m2.borrow_mut().handle(r), None)
    }));
    let types = |m: &Rc<RefCell<GpuModel>>, from: usize| -> Vec<u32> { m.borrow().cmds[from..].iter().map(|c| c.0).collect() };
    let has_edid = edid_feat != 0 && devsim::negotiated(&c.rig) & 2 != 0;
    let steps = if cfg!(miri) { if edid_only { 6 } else { 10 } } else if edid_only { 400 } else { 40 };
    let mut fb: Option<(u32, u32)> = None;
    let mut cursor_set = false;
    for _ in 0..steps {
        if c.failed() || !model.borrow().viol.is_empty() {
            break;
        }
        model.borrow_mut().force.clear();
        let n0 = model.borrow().cmds.len();
        let op = if edid_only { 0 } else { rng.below(9) };
        c.hh.u64(op);
        // occasionally the device answers the first command of the operation with something unexpected
        let inject = !edid_only && rng.chance(1, 8);
        let forced = if inject { *rng.pick(&[0x1200u32, 0x1201, 0x1202, 0x1203, 0x1101, 0x1104, 0x1100, 0xdead_beef, 0]) } else { 0 };
        match op {
            0 => {
                // EDID
                let mut blob = vec![0u8; 1024];
                match rng.below(4) {
                    0 => rng.fill(&mut blob),
                    1 => {
                        rng.fill(&mut blob[..128]);
                    }
                    2 => {
                        for i in 0..8 {
                            blob[38 + 2 * i] = 1;
                            blob[39 + 2 * i] = 1;
                        }
                        blob[38] = rng.next() as u8;
                        blob[39] = rng.next() as u8;
                    }
                    _ => {
                        rng.fill(&mut blob[..128]);
                        blob[0x36 + 2] = 0;
                        blob[0x36 + 4] &= 0x0f;
                    }
                }
                let size = *rng.pick(&[0u32, 127, 128, 129, 256, 1024, 0xffff_ffff]);
                {
                    let mut m = model.borrow_mut();
                    m.edid = blob.clone();
                    m.edid_size = size;
                    if forced != 0 {
                        m.force.push_back(forced);
                    }
                }
                let scan = 0;
                let r1 = catch_unwind(AssertUnwindSafe(|| drv.edid_preferred_resolution()));
                let r2 = catch_unwind(AssertUnwindSafe(|| drv.edid_supported_resolutions()));
                c.inc("gpu_edid_queries");
                c.oplog.push(format!("edid queries (size field {}) forced response {:#x}", size, forced));
                let (pref, st) = edid_reference(&blob, size);
                match (r1, r2) {
                    (Ok(r1), Ok(r2)) => {
                        if !has_edid {
                            if r1 != Err(Error::Unsupported) || r2 != Err(Error::Unsupported) || model.borrow().cmds.len() != n0 {
                                c.fail("C20", "edid_without_feature", format!("EDID not negotiated but queries returned {:?} / {:?} and sent {} commands", r1, r2, model.borrow().cmds.len() - n0));
                            }
                        } else {
                            let want1 = if forced != 0 && forced != 0x1104 { Err(Error::IoError) } else { pref.ok_or(Error::IoError) };
                            if r1 != want1 {
                                c.fail("C20", "edid_preferred_wrong", format!("edid_preferred_resolution() = {:?}, independent decoder says {:?} (forced response {:#x})", r1, want1, forced));
                            }
                            if r2 != Ok(st.clone()) {
                                c.fail("C20", "edid_timings_wrong", format!("edid_supported_resolutions() = {:?}, independent decoder says {:?}", r2, st));
                            }
                            let m = model.borrow();
                            if m.cmds[n0..].iter().any(|x| x.0 != 0x10a || x.1.first() != Some(&scan)) {
                                c.fail("C20", "gpu_command_sequence_wrong", format!("EDID query sent {:x?}", &m.cmds[n0..]));
                            }
                            c.out.checked += 1;
                        }
                    }
                    _ => c.fail("C20", "panic_in_request", "EDID query panicked".into()),
                }
            }
            1 => {
                if forced != 0 {
                    model.borrow_mut().force.push_back(forced);
                }
                let r = catch_unwind(AssertUnwindSafe(|| drv.resolution()));
                c.inc("gpu_resolution_queries");
                c.oplog.push(format!("resolution() forced {:#x}", forced));
                match r {
                    Ok(r) => {
                        let want = if forced != 0 && forced != 0x1101 { Err(Error::IoError) } else { Ok(model.borrow().display) };
                        if r != want || types(&model, n0) != [0x100] {
                            c.fail("C20", "gpu_resolution_wrong", format!("resolution() = {:?} (expected {:?}) via commands {:x?}", r, want, types(&model, n0)));
                        }
                        c.out.checked += 1;
                    }
                    Err(_) => c.fail("C20", "panic_in_request", "resolution panicked".into()),
                }
            }
            2 | 3 => {
                // (re)create the framebuffer
                let (w, h) = if op == 2 { model.borrow().display } else { (rng.range(1, 256) as u32, rng.range(1, 128) as u32) };
                if forced != 0 {
                    model.borrow_mut().force.push_back(forced);
                }
                let had = fb.is_some();
                let r = catch_unwind(AssertUnwindSafe(|| if op == 2 { drv.setup_framebuffer().map(|b| b.len()) } else { drv.change_resolution(w, h).map(|b| b.len()) }));
                c.inc("gpu_framebuffer_setups");
                c.oplog.push(format!("{}({}x{}) forced {:#x} existing framebuffer: {}", if op == 2 { "setup_framebuffer" } else { "change_resolution" }, w, h, forced, had));
                match r {
                    Err(_) => c.fail("C20", "panic_in_request", "framebuffer setup panicked".into()),
                    Ok(r) => {
                        let mut want: Vec<u32> = vec![];
                        if op == 2 {
                            want.push(0x100);
                        }
                        if had {
                            want.extend([0x103, 0x107, 0x102]);
                        }
                        want.extend([0x101, 0x106, 0x103]);
                        let got = types(&model, n0);
                        let expected_first_ok = if op == 2 { 0x1101 } else { 0x1100 };
                        if forced != 0 && forced != expected_first_ok {
                            if r.is_ok() {
                                c.fail("C20", "error_response_accepted", format!("device answered {:#x} to the first command but the operation returned Ok", forced));
                            }
                            // after a device error the driver's and the device's state may differ: end the case
                            break;
                        }
                        let pages = (w as usize * h as usize * 4).div_ceil(4096) * 4096;
                        if r != Ok(pages) || got != want {
                            c.fail("C20", "gpu_command_sequence_wrong", format!("framebuffer setup returned {:?} (expected Ok({})) with command sequence {:x?}, expected {:x?}", r, pages, got, want));
                            break;
                        }
                        // parameters of create / attach / set_scanout
                        let m = model.borrow();
                        let k = m.cmds.len();
                        let create = &m.cmds[k - 3].1;
                        let attach = &m.cmds[k - 2].1;
                        let scan = &m.cmds[k - 1].1;
                        if create[..4] != [0xbabe, 1, w, h] || attach[0] != 0xbabe || attach[4] != w * h * 4 || scan[..6] != [0, 0, w, h, 0, 0xbabe] {
                            drop(m);
                            c.fail("C20", "gpu_parameters_wrong", format!("create/attach/scanout for {}x{} carried wrong parameters", w, h));
                        }
                        fb = Some((w, h));
                        c.out.checked += 1;
                    }
                }
            }
            4 => {
                if forced != 0 {
                    model.borrow_mut().force.push_back(forced);
                }
                let r = catch_unwind(AssertUnwindSafe(|| drv.flush()));
                c.inc("gpu_flushes");
                c.oplog.push(format!("flush() forced {:#x}", forced));
                match r {
                    Err(_) => c.fail("C20", "panic_in_request", "flush panicked".into()),
                    Ok(r) => match fb {
                        None => {
                            if r != Err(Error::NotReady) || model.borrow().cmds.len() != n0 {
                                c.fail("C20", "gpu_flush_without_framebuffer", format!("flush() without framebuffer = {:?}", r));
                            }
                        }
                        Some((w, h)) => {
                            if forced != 0 && forced != 0x1100 {
                                if r.is_ok() {
                                    c.fail("C20", "error_response_accepted", format!("device answered {:#x} to TRANSFER_TO_HOST_2D but flush returned Ok", forced));
                                }
                            } else {
                                let m = model.borrow();
                                let got: Vec<u32> = m.cmds[n0..].iter().map(|x| x.0).collect();
                                let ok = r == Ok(()) && got == [0x105, 0x104] && m.cmds[n0].1[..7] == [0, 0, w, h, 0, 0, 0xbabe] && m.cmds[n0 + 1].1[..5] == [0, 0, w, h, 0xbabe];
                                drop(m);
                                if !ok {
                                    c.fail("C20", "gpu_command_sequence_wrong", format!("flush() = {:?} via {:x?} (expected transfer then flush of the whole {}x{} rectangle)", r, got, w, h));
                                }
                                c.out.checked += 1;
                            }
                        }
                    },
                }
            }
            5 => {
                if cursor_set {
                    continue;
                }
                let img = vec![0x7fu8; 64 * 64 * 4];
                let (px, py, hx, hy) = (rng.next() as u32, rng.next() as u32, rng.below(64) as u32, rng.below(64) as u32);
                let nc0 = model.borrow().cursor_cmds.len();
                let r = catch_unwind(AssertUnwindSafe(|| drv.setup_cursor(&img, px, py, hx, hy)));
                c.inc("gpu_cursor_setups");
                c.oplog.push(format!("setup_cursor(pos {},{} hot {},{})", px, py, hx, hy));
                match r {
                    Err(_) => c.fail("C20", "panic_in_request", "setup_cursor panicked".into()),
                    Ok(r) => {
                        let m = model.borrow();
                        let got: Vec<u32> = m.cmds[n0..].iter().map(|x| x.0).collect();
                        let cur = m.cursor_cmds.get(nc0).cloned();
                        drop(m);
                        // UpdateCursor: header(6 words) pos{scanout,x,y,pad} resource hot_x hot_y pad
                        let cur_ok = cur.as_ref().is_some_and(|w| w[0] == 0x300 && w[6..13] == [0, px, py, 0, 0xdade, hx, hy]);
                        if r != Ok(()) || got != [0x101, 0x106, 0x105] || !cur_ok {
                            c.fail("C20", "gpu_command_sequence_wrong", format!("setup_cursor = {:?} via control {:x?} cursor {:x?}", r, got, cur));
                        }
                        cursor_set = true;
                        c.out.checked += 1;
                    }
                }
            }
            6 => {
                let (px, py) = (rng.next() as u32, rng.next() as u32);
                let nc0 = model.borrow().cursor_cmds.len();
                let r = catch_unwind(AssertUnwindSafe(|| drv.move_cursor(px, py)));
                c.inc("gpu_cursor_moves");
                match r {
                    Err(_) => c.fail("C20", "panic_in_request", "move_cursor panicked".into()),
                    Ok(r) => {
                        let cur = model.borrow().cursor_cmds.get(nc0).cloned();
                        let ok = cur.as_ref().is_some_and(|w| w[0] == 0x301 && w[6..9] == [0, px, py]);
                        if r != Ok(()) || !ok || model.borrow().cmds.len() != n0 {
                            c.fail("C20", "gpu_cursor_command_wrong", format!("move_cursor({}, {}) = {:?} via {:x?}", px, py, r, cur));
                        }
                        c.out.checked += 1;
                    }
                }
            }
            _ => {
                // interrupt plumbing
                let _ = drv.ack_interrupt();
            }
        }
        let mv: Vec<(&'static str, String)> = std::mem::take(&mut model.borrow_mut().viol);
        for (r, d) in mv {
            c.fail("C20", r, d);
        }
    }
    // dropping the driver: backing must stay allocated until the device is reset
    hooks::clear();
    model.borrow_mut().audit_backings("before drop");
    crate::evlog::enable(true);
    let _ = catch_unwind(AssertUnwindSafe(move || drop(drv)));
    let log = crate::evlog::take();
    crate::evlog::enable(false);
    // any DMA release of an attached backing must come after the reset (status 0 / transport drop)
    let attached: Vec<(u64, u32)> = model.borrow().resources.values().filter_map(|r| r.backing).collect();
    let mut reset_seen = false;
    for e in &log {
        match e {
            crate::evlog::Ev::SetStatus(0) | crate::evlog::Ev::TransportDrop => reset_seen = true,
            crate::evlog::Ev::DmaDealloc { paddr, .. } => {
                if !reset_seen && attached.iter().any(|(a, _)| a == paddr) {
                    c.fail("C20", "backing_released_while_attached", format!("on drop the backing at {:#x} was released before the device was reset", paddr));
                }
            }
            _ => {}
        }
    }
    let mv: Vec<(&'static str, String)> = std::mem::take(&mut model.borrow_mut().viol);
    for (r, d) in mv {
        c.fail("C20", r, d);
    }
    c.finish(case, want_sample, format!("edid_negotiated={}", has_edid))
}

// ------------------------------------------------------------------------------------------ sound

struct SndModel {
    jacks: Vec<[u8; 24]>,
    streams: Vec<[u8; 32]>,
    chmaps: Vec<[u8; 24]>,
    ctl_log: Vec<(u32, Vec<u8>)>,
    /// status to answer the next control requests with
    status_plan: VecDeque<u32>,
    viol: Vec<(&'static str, String)>,
}

impl SndModel {
    fn handle_ctl(&mut self, r: &Req) -> Vec<u8> {
        let code = u32::from_le_bytes(r.readable[0..4].try_into().unwrap());
        self.ctl_log.push((code, r.readable.clone()));
        let status = self.status_plan.pop_front().unwrap_or(0x8000);
        let mut resp = status.to_le_bytes().to_vec();
        let w = u32s(&r.readable);
        match code {
            1 | 0x100 | 0x200 => {
                if r.readable.len() != 16 {
                    self.viol.push(("snd_request_size", format!("info query {:#x} with {} bytes", code, r.readable.len())));
                    return resp;
                }
                let (start, count, size) = (w[1] as usize, w[2] as usize, w[3] as usize);
                let (items, want_size): (Vec<&[u8]>, usize) = match code {
                    1 => (self.jacks.iter().map(|x| &x[..]).collect(), 24),
                    0x100 => (self.streams.iter().map(|x| &x[..]).collect(), 32),
                    _ => (self.chmaps.iter().map(|x| &x[..]).collect(), 24),
                };
                if size != want_size {
                    self.viol.push(("snd_info_size_field", format!("info query {:#x} size field {}", code, size)));
                }
                if status == 0x8000 {
                    for i in start..start + count {
                        match items.get(i) {
                            Some(x) => resp.extend_from_slice(x),
                            None => self.viol.push(("snd_info_range", format!("info query {:#x} for items {}..{} of {}", code, start, start + count, items.len()))),
                        }
                    }
                }
            }
            2 => {
                if r.readable.len() != 16 {
                    self.viol.push(("snd_request_size", format!("JACK_REMAP with {} bytes", r.readable.len())));
                }
            }
            0x101 => {
                if r.readable.len() != 24 {
                    self.viol.push(("snd_request_size", format!("PCM_SET_PARAMS with {} bytes", r.readable.len())));
                }
            }
            0x102..=0x105 => {
                if r.readable.len() != 8 {
                    self.viol.push(("snd_request_size", format!("PCM command {:#x} with {} bytes", code, r.readable.len())));
                }
            }
            other => self.viol.push(("snd_unknown_command", format!("control code {:#x}", other))),
        }
        resp
    }
}

pub fn pcm_byte(stream: u32, k: u64) -> u8 {
    let w = (k / 2).wrapping_mul(0x2545f4914f6cdd1d).wrapping_add(stream as u64 * 77) >> 13;
    if k % 2 == 0 { w as u8 } else { (w >> 8) as u8 }
}

fn sound_case(case: u64, seed: u64, want_sample: bool) -> CaseOut {
    let mut r0 = Rng::derive(seed, 0xC205, case, 0);
    let (nj, ns, nc) = (r0.below(4) as usize, r0.range(1, 4) as usize, r0.below(3) as usize);
    let mut cfg = vec![];
    for v in [nj as u32, ns as u32, nc as u32] {
        cfg.extend_from_slice(&v.to_le_bytes());
    }
    let (mut c, t, mut rng) = setup(case, seed, 5, DeviceType::Sound, 0, cfg, &[0, 1, 2, 3], "sound");
    let mut drv = match catch_unwind(AssertUnwindSafe(|| VirtIOSound::<LedgerHal, AnyT>::new(t))) {
        Ok(Ok(d)) => d,
        other => {
            c.fail("C20", "construction_failed", format!("VirtIOSound::new: {:?}", other.map(|r| r.map(|_| ()))));
            return c.finish(case, want_sample, String::new());
        }
    };
    let mut model = SndModel { jacks: vec![], streams: vec![], chmaps: vec![], ctl_log: vec![], status_plan: VecDeque::new(), viol: vec![] };
    for i in 0..nj {
        let mut j = [0u8; 24];
        r0.fill(&mut j[..17]);
        j[4] = (i % 2) as u8; // features bit 0 = REMAP
        j[5] = 0;
        j[6] = 0;
        j[7] = 0;
        model.jacks.push(j);
    }
    for i in 0..ns {
        let mut s = [0u8; 32];
        r0.fill(&mut s[..27]);
        s[24] = (i % 2) as u8; // direction: even = output
        model.streams.push(s);
    }
    for _ in 0..nc {
        let mut m = [0u8; 24];
        r0.fill(&mut m);
        model.chmaps.push(m);
    }
    let streams_info = model.streams.clone();
    let jacks_info = model.jacks.clone();
    let model = Rc::new(RefCell::new(model));
    let m2 = model.clone();
    c.dev.borrow_mut().manual = vec![2];
    c.dev.borrow_mut().handler = Some(Box::new(move |r: &Req| {
        if r.q != 0 || r.readable.len() < 4 {
            return (vec![], None);
        }
        (m2.borrow_mut().handle_ctl(r), None)
    }));
    if drv.jacks() as usize != nj || drv.streams() as usize != ns || drv.chmaps() as usize != nc {
        c.fail("C20", "snd_config_wrong", format!("jacks/streams/chmaps = {}/{}/{}, device has {}/{}/{}", drv.jacks(), drv.streams(), drv.chmaps(), nj, ns, nc));
    }
    // tx-queue device: per-stream reassembly; blocking xfers are completed from the spin hook in FIFO order
    struct Tx {
        dev: Rc<RefCell<CmdDev>>,
        expect: BTreeMap<u32, u64>, // stream -> next position
        period: BTreeMap<u32, usize>,
        viol: Vec<(&'static str, String)>,
        chunks: u64,
        max_outstanding: usize,
        hold: bool,
        status: u32,
        pile_up: bool,
        last_held: usize,
        stalled: u32,
    }
    impl Tx {
        /// validate all newly fetched tx chains, complete them unless holding
        fn service(&mut self) {
            let mut d = self.dev.borrow_mut();
            d.observe();
            let indirect = d.qs.get(&2).map(|q| q.dev.indirect_ok).unwrap_or(false);
            let Some(q) = d.qs.get_mut(&2) else { return };
            self.max_outstanding = self.max_outstanding.max(q.held.len());
            let cap = if indirect { 32 } else { 10 };
            if q.held.len() > cap {
                self.viol.push(("pcm_queue_capacity_exceeded", format!("{} transfers outstanding", q.held.len())));
            }
            if self.hold {
                return;
            }
            while let Some(ch) = q.held.front().cloned() {
                let bytes = q.dev.read_payload(&ch).unwrap_or_default();
                if bytes.len() < 4 || ch.writable_len() != 8 {
                    self.viol.push(("pcm_chain_shape", format!("tx chain {:?}", ch.elems)));
                    let _ = q.complete_at(0, &[], Some(0));
                    continue;
                }
                let sid = u32::from_le_bytes(bytes[0..4].try_into().unwrap());
                let frames = &bytes[4..];
                let per = self.period.get(&sid).copied().unwrap_or(0);
                if frames.is_empty() || frames.len() > per {
                    self.viol.push(("pcm_chunk_size", format!("stream {} chunk of {} bytes, period is {}", sid, frames.len(), per)));
                }
                let pos = self.expect.entry(sid).or_insert(0);
                for (i, b) in frames.iter().enumerate() {
                    if *b != pcm_byte(sid, *pos + i as u64) {
                        self.viol.push(("pcm_frames_wrong", format!("stream {}: byte #{} of the played stream is wrong (lost, duplicated, reordered or tagged with the wrong stream id)", sid, *pos + i as u64)));
                        break;
                    }
                }
                *pos += frames.len() as u64;
                self.chunks += 1;
                let mut st = self.status.to_le_bytes().to_vec();
                st.extend_from_slice(&0u32.to_le_bytes());
                let _ = q.complete_at(0, &st, Some(8));
            }
        }
    }
    let tx = Rc::new(RefCell::new(Tx { dev: c.dev.clone(), expect: BTreeMap::new(), period: BTreeMap::new(), viol: vec![], chunks: 0, max_outstanding: 0, hold: false, status: 0x8000, pile_up: false, last_held: usize::MAX, stalled: 0 }));
    // spin hook: control device + tx servicing (sometimes lagging, so that the queue fills up)
    {
        let dev = c.dev.clone();
        let tx2 = tx.clone();
        let mut lag = Rng::new(seed ^ case);
        let mut spins = 0u64;
        hooks::set_spin(move || {
            spins += 1;
            {
                let mut d = dev.borrow_mut();
                d.step();
                if d.fatal() {
                    drop(d);
                    panic!("monitor: device-side verdict inside a busy-wait loop");
                }
            }
            // a slow device: in "pile-up" mode it lets transfers accumulate until the driver stops adding
            // (queue full or nothing left to add) before it plays anything; otherwise it lags randomly
            let mut t = tx2.borrow_mut();
            if t.pile_up {
                let now = {
                    let mut d = t.dev.borrow_mut();
                    d.observe();
                    d.qs.get(&2).map(|q| q.held.len()).unwrap_or(0)
                };
                if now == t.last_held {
                    t.stalled += 1;
                } else {
                    t.stalled = 0;
                    t.last_held = now;
                }
                if t.stalled >= 3 {
                    t.service();
                    t.stalled = 0;
                    t.last_held = usize::MAX;
                }
            } else if lag.chance(1, 3) || spins % 64 == 0 {
                t.service();
            }
            drop(t);
            if spins % devsim::SPIN_WATCHDOG == 0 {
                panic!("monitor: spin watchdog");
            }
        });
    }
    let sent_pos: Rc<RefCell<BTreeMap<u32, u64>>> = Rc::new(RefCell::new(BTreeMap::new()));
    let mut params: BTreeMap<u32, (u32, u32)> = BTreeMap::new();
    for _ in 0..40 {
        if c.failed() || !model.borrow().viol.is_empty() || !tx.borrow().viol.is_empty() {
            break;
        }
        let n0 = model.borrow().ctl_log.len();
        let stream = rng.below(ns as u64) as u32;
        let op = rng.below(10);
        c.hh.u64(op | (stream as u64) << 8);
        // first API call triggers set_up (info queries); account for them separately
        let expect_setup = |m: &SndModel, from: usize| -> usize {
            let mut i = from;
            for code in [1u32, 0x100, 0x200] {
                if m.ctl_log.get(i).is_some_and(|x| x.0 == code) {
                    i += 1;
                }
            }
            i
        };
        match op {
            0..=2 => {
                let period = *rng.pick(&[4u32, 64, 100, 256, 4096]);
                let mult = rng.range(1, 4) as u32;
                let bad = rng.chance(1, 8);
                let (bb, pb) = if bad { (period * mult + 1, period) } else { (period * mult, period) };
                let st = if rng.chance(1, 8) { *rng.pick(&[0x8001u32, 0x8002, 0x8003, 0]) } else { 0x8000 };
                let was_setup = n0 > 0;
                if !bad {
                    // the status applies to the SET_PARAMS request, not to the info queries of set_up
                    let mut m = model.borrow_mut();
                    if !was_setup {
                        m.status_plan.extend([0x8000, 0x8000, 0x8000]);
                    }
                    m.status_plan.push_back(st);
                }
                let feats = PcmFeatures::from_bits_retain(rng.next() as u32 & 0x1f);
                let ch = rng.next() as u8;
                let r = catch_unwind(AssertUnwindSafe(|| drv.pcm_set_params(stream, bb, pb, feats, ch, PcmFormat::S16, PcmRate::Rate44100)));
                c.inc("snd_set_params");
                c.oplog.push(format!("pcm_set_params(stream {}, buffer {}, period {}) status {:#x}", stream, bb, pb, st));
                model.borrow_mut().status_plan.clear();
                match r {
                    Err(_) => c.fail("C20", "panic_in_request", "pcm_set_params panicked".into()),
                    Ok(r) => {
                        let m = model.borrow();
                        let from = expect_setup(&m, n0);
                        if bad {
                            if r != Err(Error::InvalidParam) || m.ctl_log.len() != from {
                                drop(m);
                                c.fail("C20", "snd_invalid_params_not_refused", format!("pcm_set_params(buffer {}, period {}) = {:?}", bb, pb, r));
                            }
                        } else {
                            let ok_req = m.ctl_log.len() == from + 1 && {
                                let b = &m.ctl_log[from].1;
                                b.len() == 24 && u32s(b)[..5] == [0x101, stream, bb, pb, feats.bits()] && b[20] == ch && b[21] == 5 && b[22] == 6 && b[23] == 0
                            };
                            let dbg = format!("{:x?}", m.ctl_log.get(from));
                            drop(m);
                            if !ok_req {
                                c.fail("C20", "snd_request_encoding_wrong", format!("PCM_SET_PARAMS reached the device as {}", dbg));
                            }
                            let want = if st == 0x8000 { Ok(()) } else { Err(Error::IoError) };
                            if r != want {
                                c.fail("C20", "snd_response_check_wrong", format!("pcm_set_params = {:?} for device status {:#x}", r, st));
                            }
                            if st == 0x8000 {
                                params.insert(stream, (bb, pb));
                                tx.borrow_mut().period.insert(stream, pb as usize);
                            }
                            c.out.checked += 1;
                        }
                    }
                }
            }
            3 => {
                let which = rng.below(4);
                let st = if rng.chance(1, 6) { 0x8003u32 } else { 0x8000 };
                {
                    let mut m = model.borrow_mut();
                    if n0 == 0 {
                        m.status_plan.extend([0x8000, 0x8000, 0x8000]);
                    }
                    m.status_plan.push_back(st);
                }
                let r = catch_unwind(AssertUnwindSafe(|| match which {
                    0 => drv.pcm_prepare(stream),
                    1 => drv.pcm_start(stream),
                    2 => drv.pcm_stop(stream),
                    _ => drv.pcm_release(stream),
                }));
                model.borrow_mut().status_plan.clear();
                c.inc("snd_stream_commands");
                let code = [0x102u32, 0x104, 0x105, 0x103][which as usize];
                c.oplog.push(format!("pcm command {:#x}(stream {}) status {:#x}", code, stream, st));
                match r {
                    Err(_) => c.fail("C20", "panic_in_request", "pcm command panicked".into()),
                    Ok(r) => {
                        let m = model.borrow();
                        let from = expect_setup(&m, n0);
                        let ok = m.ctl_log.len() == from + 1 && m.ctl_log[from].1.len() == 8 && u32s(&m.ctl_log[from].1) == [code, stream];
                        let dbg = format!("{:x?}", m.ctl_log.get(from));
                        drop(m);
                        if !ok {
                            c.fail("C20", "snd_request_encoding_wrong", format!("PCM command {:#x} for stream {} reached the device as {}", code, stream, dbg));
                        }
                        if r != if st == 0x8000 { Ok(()) } else { Err(Error::IoError) } {
                            c.fail("C20", "snd_response_check_wrong", format!("pcm command = {:?} for device status {:#x}", r, st));
                        }
                        c.out.checked += 1;
                    }
                }
            }
            4..=6 => {
                // blocking playback
                let Some((_, pb)) = params.get(&stream).copied() else {
                    let r = catch_unwind(AssertUnwindSafe(|| drv.pcm_xfer(stream, &[1, 2, 3, 4])));
                    if !matches!(r, Ok(Err(Error::IoError))) {
                        c.fail("C20", "snd_xfer_before_set_params", format!("pcm_xfer on a stream without parameters = {:?}", r.map_err(|_| "panic")));
                    }
                    continue;
                };
                let nper = match rng.below(5) {
                    0 => 40,
                    1 => 33,
                    _ => rng.range(1, 12),
                };
                let tail = if rng.bool() { rng.below(pb as u64) as usize } else { 0 };
                let total = (nper as usize * pb as usize + tail).min(200_000);
                let start = *sent_pos.borrow().get(&stream).unwrap_or(&0);
                let frames: Vec<u8> = (0..total as u64).map(|k| pcm_byte(stream, start + k)).collect();
                let chunks0 = tx.borrow().chunks;
                {
                    let mut t = tx.borrow_mut();
                    t.pile_up = rng.bool();
                    t.last_held = usize::MAX;
                    t.stalled = 0;
                }
                let r = catch_unwind(AssertUnwindSafe(|| drv.pcm_xfer(stream, &frames)));
                c.inc("snd_blocking_xfers");
                c.oplog.push(format!("pcm_xfer(stream {}, {} bytes = {} periods of {} + {})", stream, total, nper, pb, tail));
                tx.borrow_mut().service();
                match r {
                    Err(_) => {
                        if c.dev.borrow().viol.is_empty() {
                            c.fail("C20", "panic_in_request", "pcm_xfer panicked".into())
                        }
                    }
                    Ok(r) => {
                        sent_pos.borrow_mut().insert(stream, start + total as u64);
                        let t = tx.borrow();
                        let got = t.expect.get(&stream).copied().unwrap_or(0);
                        let outstanding = t.dev.borrow().qs.get(&2).map(|q| q.held.len() + q.pending() as usize).unwrap_or(0);
                        if r != Ok(()) {
                            drop(t);
                            c.fail("C20", "snd_xfer_failed", format!("pcm_xfer = {:?}", r));
                        } else if got != start + total as u64 || outstanding != 0 {
                            drop(t);
                            c.fail("C20", "pcm_frames_not_all_delivered", format!("pcm_xfer of {} bytes returned Ok but the device received {} of them and {} transfers are still outstanding", total, got - start, outstanding));
                        } else {
                            let want_chunks = total.div_ceil(pb as usize) as u64;
                            if t.chunks - chunks0 != want_chunks {
                                drop(t);
                                c.fail("C20", "pcm_chunk_count", format!("{} bytes with period {} arrived in a wrong number of chunks", total, pb));
                            }
                        }
                        c.out.checked += 1;
                    }
                }
            }
            7 => {
                // non-blocking transfers completed in arbitrary order per the used ring
                let Some((_, pb)) = params.get(&stream).copied() else { continue };
                let k = rng.range(1, 6) as usize;
                tx.borrow_mut().hold = true;
                let mut toks = vec![];
                for _ in 0..k {
                    let start = *sent_pos.borrow().get(&stream).unwrap_or(&0);
                    let frames: Vec<u8> = (0..pb as u64).map(|j| pcm_byte(stream, start + j)).collect();
                    match catch_unwind(AssertUnwindSafe(|| drv.pcm_xfer_nb(stream, &frames))) {
                        Ok(Ok(t)) => {
                            toks.push(t);
                            sent_pos.borrow_mut().insert(stream, start + pb as u64);
                        }
                        Ok(Err(Error::QueueFull)) => break,
                        other => {
                            c.fail("C20", "snd_xfer_failed", format!("pcm_xfer_nb = {:?}", other.map_err(|_| "panic")));
                            break;
                        }
                    }
                }
                tx.borrow_mut().service();
                tx.borrow_mut().hold = false;
                tx.borrow_mut().service(); // device plays them (FIFO), completions in that order
                for t in toks {
                    let r = catch_unwind(AssertUnwindSafe(|| drv.pcm_xfer_ok(t)));
                    if !matches!(r, Ok(Ok(()))) {
                        c.fail("C20", "snd_xfer_failed", format!("pcm_xfer_ok({}) = {:?}", t, r.map_err(|_| "panic")));
                    }
                }
                c.inc("snd_nonblocking_batches");
                c.out.checked += 1;
            }
            8 => {
                // capability getters equal what the device reported
                {
                    let mut m = model.borrow_mut();
                    m.status_plan.clear();
                }
                let info = &streams_info[stream as usize];
                let r = (drv.rates_supported(stream), drv.formats_supported(stream), drv.channel_range_supported(stream), drv.features_supported(stream), drv.output_streams(), drv.input_streams());
                let want_rates = PcmRates::from_bits_retain(u64::from_le_bytes(info[16..24].try_into().unwrap()));
                let want_formats = PcmFormats::from_bits_retain(u64::from_le_bytes(info[8..16].try_into().unwrap()));
                let want_feats = PcmFeatures::from_bits_retain(u32::from_le_bytes(info[4..8].try_into().unwrap()));
                let outs: Vec<u32> = (0..ns as u32).filter(|i| streams_info[*i as usize][24] == 0).collect();
                let ins: Vec<u32> = (0..ns as u32).filter(|i| streams_info[*i as usize][24] == 1).collect();
                if r.0 != Ok(want_rates) || r.1 != Ok(want_formats) || r.2 != Ok(info[25]..=info[26]) || r.3 != Ok(want_feats) || r.4 != Ok(outs) || r.5 != Ok(ins) {
                    c.fail("C20", "snd_capabilities_wrong", format!("stream {} capabilities differ from the device's PCM info: {:?}", stream, r));
                }
                c.inc("snd_capability_queries");
                c.out.checked += 1;
            }
            _ => {
                if nj == 0 {
                    continue;
                }
                let jack = rng.below(nj as u64) as u32;
                let (assoc, seq) = (rng.next() as u32, rng.next() as u32);
                let st = if rng.chance(1, 5) { 0x8002u32 } else { 0x8000 };
                {
                    let mut m = model.borrow_mut();
                    if n0 == 0 {
                        m.status_plan.extend([0x8000, 0x8000, 0x8000]);
                    }
                    m.status_plan.push_back(st);
                }
                let r = catch_unwind(AssertUnwindSafe(|| drv.jack_remap(jack, assoc, seq)));
                model.borrow_mut().status_plan.clear();
                c.inc("snd_jack_remaps");
                let can = jacks_info[jack as usize][4] & 1 != 0;
                match r {
                    Err(_) => c.fail("C20", "panic_in_request", "jack_remap panicked".into()),
                    Ok(r) => {
                        let m = model.borrow();
                        let from = expect_setup(&m, n0);
                        if !can {
                            if r != Err(Error::Unsupported) || m.ctl_log.len() != from {
                                drop(m);
                                c.fail("C20", "snd_remap_without_feature", format!("jack_remap on a jack without REMAP = {:?}", r));
                            }
                        } else {
                            let ok = m.ctl_log.len() == from + 1 && u32s(&m.ctl_log[from].1) == [2, jack, assoc, seq];
                            drop(m);
                            if !ok || r != if st == 0x8000 { Ok(()) } else { Err(Error::Unsupported) } {
                                c.fail("C20", "snd_request_encoding_wrong", format!("jack_remap({}, {}, {}) = {:?}", jack, assoc, seq, r));
                            }
                            c.out.checked += 1;
                        }
                    }
                }
            }
        }
        let mv: Vec<(&'static str, String)> = std::mem::take(&mut model.borrow_mut().viol);
        for (r, d) in mv {
            c.fail("C20", r, d);
        }
        let tv: Vec<(&'static str, String)> = std::mem::take(&mut tx.borrow_mut().viol);
        for (r, d) in tv {
            c.fail("C20", r, d);
        }
    }
    hooks::clear();
    let (chunks, maxo) = (tx.borrow().chunks, tx.borrow().max_outstanding);
    *c.cnt.entry("pcm_chunks_reassembled").or_insert(0) += chunks;
    let e = c.cnt.entry("max_pcm_outstanding").or_insert(0);
    *e = (*e).max(maxo as u64);
    let _ = catch_unwind(AssertUnwindSafe(move || drop(drv)));
    c.finish(case, want_sample, format!("jacks {} streams {} chmaps {}", nj, ns, nc))
}

pub fn one_case(case: u64, seed: u64, want_sample: bool) -> CaseOut {
    match case % 10 {
        0 => rng_case(case, seed, want_sample),
        1 => rtc_case(case, seed, want_sample),
        2 => p9_case(case, seed, want_sample),
        3 | 4 | 5 => gpu_case(case, seed, want_sample, false),
        6 => gpu_case(case, seed, want_sample, true),
        _ => sound_case(case, seed, want_sample),
    }
}

pub fn run(args: &Args, sh: &mut Shard) {
    // under Miri: model transports only (see xport_any::set_model_only), tiny workloads
    crate::xport_any::set_model_only(args.is_miri());
    if let Some(r) = &args.replay {
        let case = r.get("case").and_then(|x| x.as_u64()).unwrap_or(0);
        let o = one_case(case, args.seed, true);
        println!("REPLAY case {}: {:#?} sample {:?}", case, o.viol, o.sample.map(|s| s.to_string()));
        for v in o.viol {
            sh.violation(Violation { prop: v.prop.into(), signature: format!("{}/{}", v.prop, v.rule), detail: v.detail, replay: r.clone() });
        }
        sh.evaluations = 1;
        return;
    }
    let n = if args.is_miri() { 32 } else { args.scaled(if args.thorough() { 200_000 } else { 8_000 }) };
    let mut k = args.shard;
    while k < n {
        // stride coprime to 10 so that every shard sees every device
        let case = k.wrapping_mul(3).wrapping_add(k / 10);
        let o = one_case(case, args.seed, sh.want_sample() && case % 10 >= 3);
        sh.evaluations += 1;
        for (kk, v) in &o.counters {
            if kk.starts_with("max_") {
                sh.max(kk, *v);
            } else {
                sh.inc(kk, *v);
            }
        }
        sh.inc("responses_and_requests_checked", o.checked);
        if o.checked > 0 {
            sh.nontrivial.insert(o.hash ^ case.wrapping_mul(0x9e3779b97f4a7c15));
        }
        if let Some(s) = o.sample {
            sh.sample(s);
        }
        for v in o.viol {
            sh.violation(Violation { prop: v.prop.into(), signature: format!("{}/{}", v.prop, v.rule), detail: v.detail, replay: J::obj().with("case", J::u(case)).with("build", J::s(args.build.clone())) });
        }
        if sh.violations.len() >= 8 {
            return;
        }
        k += args.nshards;
    }
}
