//! One module per property: workload + oracles + evidence.
use crate::report::Shard;

pub mod c01_04;
pub mod c02t;
pub mod c05;
pub mod c06;
pub mod c07;
pub mod c08;
pub mod c09;
pub mod c10;
pub mod c11;
pub mod c12;
pub mod c13;
pub mod c14;
pub mod c15;
pub mod c16;
pub mod c17_18;
pub mod c19;
pub mod c20;

pub struct Args {
    pub prop: String,
    pub tier: String,
    pub build: String,
    pub seed: u64,
    pub shard: u64,
    pub nshards: u64,
    pub replay: Option<crate::json::J>,
    /// scale factor (per-mille) applied to workload sizes; 1000 = nominal
    pub scale: u64,
}

impl Args {
    pub fn is_miri(&self) -> bool {
        self.build.starts_with("miri")
    }
    pub fn thorough(&self) -> bool {
        self.tier == "thorough"
    }
    /// n scaled by tier/build
    pub fn scaled(&self, n: u64) -> u64 {
        (n * self.scale / 1000).max(1)
    }
}

pub fn run(args: &Args) -> Shard {
    let mut sh = Shard::new(&args.prop, &args.tier, &args.build, args.seed, args.shard, args.nshards);
    match args.prop.as_str() {
        "C01" | "C02" | "C03" | "C04" => c01_04::run(args, &mut sh),
        "C02T" => {
            sh.prop = "C02".into();
            c02t::run(args, &mut sh)
        }
        "C05" => c05::run(args, &mut sh),
        "C06" => c06::run(args, &mut sh),
        "C10" => c10::run(args, &mut sh),
        "C12" => c12::run(args, &mut sh),
        "C11" => c11::run(args, &mut sh),
        "C13" => c13::run(args, &mut sh),
        "C14" => c14::run(args, &mut sh),
        "C15" => c15::run(args, &mut sh),
        "C16" => c16::run(args, &mut sh),
        "C17" | "C18" => c17_18::run(args, &mut sh),
        "C19" => c19::run(args, &mut sh),
        "C20" => c20::run(args, &mut sh),
        "C08" => c08::run(args, &mut sh),
        "C09" => c09::run(args, &mut sh),
        "C07" | "C07OOM" => c07::run(args, &mut sh),
        "DBG" => { let mut a2 = Args { prop: "C03".into(), tier: args.tier.clone(), build: args.build.clone(), seed: args.seed, shard: 0, nshards: 1, replay: None, scale: 1000 }; a2.seed = args.seed; c01_04::debug_mismatch(&a2) }
        p => sh.inconclusive.push(format!("no check implemented for {}", p)),
    }
    sh
}
