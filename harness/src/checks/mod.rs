//! One module per property: workload + oracles + evidence.
use crate::report::Shard;

pub mod c01_04;
pub mod c02t;
pub mod c05;
pub mod c06;
pub mod c07;
pub mod c08;
pub mod c09;
pub mod c10;
pub mod c11;
pub mod c12;
pub mod c13;
pub mod c14;
pub mod c15;
pub mod c16;
pub mod c17_18;
pub mod c19;
pub mod c20;

pub struct Args {
    pub prop: String,
    pub tier: String,
    pub build: String,
    pub seed: u64,
    pub shard: u64,
    pub nshards: u64,
    pub replay: Option<crate::json::J>,
    /// scale factor (per-mille) applied to workload sizes; 1000 = nominal
    pub scale: u64,
}

impl Args {
    pub fn is_miri(&self) -> bool {
        self.build.starts_with("miri")
    }
    pub fn thorough(&self) -> bool {
        self.tier == "thorough"
    }
    /// n scaled by tier/build
    pub fn scaled(&self, n: u64) -> u64 {
        (n * self.scale / 1000).max(1)
    }
}

pub fn run(args: &Args) -> Shard {
    let mut sh = Shard::new(&args.prop, &args.tier, &args.build, args.seed, args.shard, args.nshards);
    match args.prop.as_str() {
        "C01" | "C02" | "C03" | "C04" => c01_04::run(args, &mut sh),
        "C02T" => {
            sh.prop = "C02".into();
            c02t::run(args, &mut sh)
        }
        "C05" => {
            // a replay of a driver-level witness goes straight to the module that produced it
            let module = args.replay.as_ref().and_then(|r| r.get("module")).and_then(|m| m.as_str()).map(|m| m.to_string());
            if module.is_none() {
                c05::run(args, &mut sh);
            }
            // Driver-level blocking helpers (blk, console, net receive_wait, vsock wait_for_event, sound pcm_xfer, the
            // request/response drivers): the same workloads as C14-C17/C20; their device personalities flag
            // "driver spins while the device is idle and was not notified" as C05/wait_without_notification, which is
            // this shard's own property (everything else they notice is counted as foreign).
            if !args.is_miri() && !sh.has_own_violation() && (args.replay.is_none() || module.is_some()) {
                for m in ["C14", "C15", "C16", "C17", "C20"] {
                    if module.as_deref().is_some_and(|x| x != m) {
                        continue;
                    }
                    let a2 = Args { prop: m.into(), tier: args.tier.clone(), build: args.build.clone(), seed: args.seed, shard: args.shard, nshards: args.nshards, replay: args.replay.clone(), scale: args.scale.min(2000) };
                    let before = sh.violations.len();
                    let ev0 = sh.evaluations;
                    match m {
                        "C14" => c14::run(&a2, &mut sh),
                        "C15" => c15::run(&a2, &mut sh),
                        "C16" => c16::run(&a2, &mut sh),
                        "C17" => c17_18::run(&a2, &mut sh),
                        _ => c20::run(&a2, &mut sh),
                    }
                    sh.inc("driver_level_blocking_helper_cases", sh.evaluations - ev0);
                    for v in sh.violations[before..].iter_mut() {
                        v.replay.set("module", crate::json::J::s(m));
                    }
                }
            }
        }
        "C06" => c06::run(args, &mut sh),
        "C10" => c10::run(args, &mut sh),
        "C12" => c12::run(args, &mut sh),
        "C11" => c11::run(args, &mut sh),
        "C13" => c13::run(args, &mut sh),
        "C14" => c14::run(args, &mut sh),
        "C15" => c15::run(args, &mut sh),
        "C16" => c16::run(args, &mut sh),
        "C17" | "C18" => c17_18::run(args, &mut sh),
        "C19" => c19::run(args, &mut sh),
        "C20" => c20::run(args, &mut sh),
        "C08" => c08::run(args, &mut sh),
        "C09" => c09::run(args, &mut sh),
        "C07" | "C07OOM" => c07::run(args, &mut sh),
        "DBG" => { let mut a2 = Args { prop: "C03".into(), tier: args.tier.clone(), build: args.build.clone(), seed: args.seed, shard: 0, nshards: 1, replay: None, scale: 1000 }; a2.seed = args.seed; c01_04::debug_mismatch(&a2) }
        p => sh.inconclusive.push(format!("no check implemented for {}", p)),
    }
    sh
}
