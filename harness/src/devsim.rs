//! Device-side building blocks shared by the driver-level checks: a per-queue server on top of the
//! reference virtqueue device, with notification policies, plus helpers to install a device
//! personality into the library's spin / dma hooks.

use crate::hooks;
use crate::vqdev::{Chain, VqDev};
use crate::xport_any::Rig;
use crate::xport_model::ModelState;
use std::cell::RefCell;
use std::collections::VecDeque;
use std::rc::Rc;

pub const F_INDIRECT: u64 = 1 << 28;
pub const F_EVENT_IDX: u64 = 1 << 29;
pub const F_VERSION_1: u64 = 1 << 32;
pub const F_ACCESS_PLATFORM: u64 = 1 << 33;
pub const F_RING: u64 = F_INDIRECT | F_EVENT_IDX | F_VERSION_1 | F_ACCESS_PLATFORM;

#[derive(Clone, Debug)]
pub struct DViol {
    pub prop: &'static str,
    pub rule: &'static str,
    pub detail: String,
}

/// How the device treats driver notifications on one queue.
#[derive(Clone, Copy, Debug, PartialEq, Eq)]
pub enum Policy {
    /// Never suppresses; looks at the queue only when notified.
    OnNotify,
    /// Suppresses notifications (NO_NOTIFY / far-away avail_event) and polls.
    Polling,
    /// Looks at the queue whenever it gets to run (notified or not), never suppresses.
    Eager,
}

pub struct QSrv {
    pub dev: VqDev,
    pub policy: Policy,
    pub notified: bool,
    /// Chains fetched (validated) but not yet completed.
    pub held: VecDeque<Chain>,
    pub chains_seen: u64,
    pub indirect_seen: u64,
    pub completed: u64,
    pub last_irq_used_idx: u16,
    /// A polling device that, after this many completions, stops polling, lifts the notification
    /// suppression, looks at the ring once more (as a device must after re-enabling notifications) and
    /// from then on serves only when notified.
    pub switch_after: Option<u64>,
}

impl QSrv {
    pub fn new(st: &ModelState, q: u16, policy: Policy) -> Option<QSrv> {
        let reg = *st.queues.get(&q)?;
        let f = st.driver_features.unwrap_or(0);
        let dev = VqDev::new(q, reg, f & F_INDIRECT != 0, f & F_EVENT_IDX != 0);
        let s = QSrv { dev, policy, notified: false, held: VecDeque::new(), chains_seen: 0, indirect_seen: 0, completed: 0, last_irq_used_idx: 0, switch_after: None };
        s.arm();
        Some(s)
    }
    /// Leave the notification-suppression fields as a spec-following device with this policy would.
    pub fn arm(&self) {
        match (self.policy, self.dev.event_idx) {
            (Policy::Polling, true) => {
                let _ = self.dev.set_avail_event(self.dev.next_avail.wrapping_add(0x4000));
            }
            (Policy::Polling, false) => {
                let _ = self.dev.set_used_flags(1);
            }
            (_, true) => {
                let _ = self.dev.set_avail_event(self.dev.next_avail);
            }
            (_, false) => {
                let _ = self.dev.set_used_flags(0);
            }
        }
    }
    /// May the device look at the available ring right now?
    pub fn may_look(&self) -> bool {
        match self.policy {
            Policy::OnNotify => self.notified,
            _ => true,
        }
    }
    pub fn pending(&self) -> u16 {
        self.dev.pending().unwrap_or(0)
    }
    /// Fetch (and validate) every new chain.  Err = malformed chain (C01).
    pub fn fetch_all(&mut self) -> Result<usize, String> {
        let mut n = 0;
        while let Some(ch) = self.dev.fetch()? {
            if ch.indirect {
                self.indirect_seen += 1;
            }
            self.chains_seen += 1;
            self.held.push_back(ch);
            n += 1;
        }
        self.notified = false;
        self.arm();
        Ok(n)
    }
    /// Like `fetch_all` but stops after `max` chains (hostile workloads scribble over the available
    /// index, after which "every new chain" can mean 65535 of them).
    pub fn fetch_some(&mut self, max: usize) -> Result<usize, String> {
        let mut n = 0;
        while n < max {
            let Some(ch) = self.dev.fetch()? else { break };
            if ch.indirect {
                self.indirect_seen += 1;
            }
            self.chains_seen += 1;
            self.held.push_back(ch);
            n += 1;
        }
        self.notified = false;
        self.arm();
        Ok(n)
    }
    /// Complete a held chain (by position in `held`): write `data` into its writable part and publish.
    pub fn complete_at(&mut self, i: usize, data: &[u8], len: Option<u32>) -> Result<Chain, String> {
        let ch = self.held.remove(i).ok_or("no such held chain")?;
        let w = self.dev.write_payload(&ch, data)?;
        self.dev.complete(ch.head, len.unwrap_or(w as u32))?;
        self.completed += 1;
        if let Some(k) = self.switch_after {
            if self.policy == Policy::Polling && self.completed >= k {
                self.policy = Policy::OnNotify;
                self.switch_after = None;
                self.arm();
                let _ = self.fetch_all();
            }
        }
        Ok(ch)
    }
    /// Hostile completion: write an arbitrary (id, len) element at the current used slot and advance
    /// the used index by `jump` (1 = normal).  Does not touch `held`.
    pub fn hostile_complete(&mut self, id: u32, len: u32, jump: u16) -> Result<(), String> {
        let slot = self.dev.used_idx & (self.dev.size.wrapping_sub(1));
        self.dev.write_used_elem(slot, id, len)?;
        self.dev.used_idx = self.dev.used_idx.wrapping_add(jump);
        self.dev.store_used_idx(self.dev.used_idx)
    }
    /// Does a spec-following device interrupt for what it has published since the last interrupt decision?
    pub fn wants_interrupt(&mut self) -> bool {
        let new = self.dev.used_idx;
        let old = self.last_irq_used_idx;
        if new == old {
            return false;
        }
        self.last_irq_used_idx = new;
        if self.dev.event_idx {
            let ev = self.dev.used_event().unwrap_or(0);
            VqDev::vring_need_event(ev, new, old)
        } else {
            self.dev.avail_flags().unwrap_or(0) & 1 == 0
        }
    }
}

/// A device personality that can be stepped from the library's busy-wait loops.
pub trait Personality {
    /// Let the device run (called from spin hooks, and by workloads between API calls).
    fn step(&mut self);
    /// Non-empty if a monitor fired inside the device (the spin hook then aborts the wait).
    fn fatal(&self) -> bool;
}

pub const SPIN_WATCHDOG: u64 = 2_000_000;

/// Install `p` so that every busy-wait iteration of the library steps it.  If the personality reports
/// a fatal monitor verdict, or the watchdog fires, the hook panics to unwind out of the driver call.
pub fn install_spin<P: Personality + 'static>(p: &Rc<RefCell<P>>) {
    let p2 = p.clone();
    let mut spins: u64 = 0;
    hooks::set_spin(move || {
        spins += 1;
        let mut d = p2.borrow_mut();
        d.step();
        if d.fatal() {
            drop(d);
            panic!("monitor: device-side verdict inside a busy-wait loop");
        }
        if spins % SPIN_WATCHDOG == 0 {
            drop(d);
            panic!("monitor: spin watchdog");
        }
    });
}

pub fn negotiated(rig: &Rig) -> u64 {
    rig.st.borrow().driver_features.unwrap_or(0)
}
