//! All eleven drivers behind one enum, with per-driver metadata (device type, configuration space,
//! queues, feature tables pinned to this commit - DESIGN Appendix B), an automatic device responder
//! and a short usage script.  Used by C08, C09 and C07.

use crate::checks::c20::{CmdDev, Req};
use crate::mem::LedgerHal;
use crate::xport_any::AnyT;
use virtio_drivers::device::blk::VirtIOBlk;
use virtio_drivers::device::console::VirtIOConsole;
use virtio_drivers::device::gpu::VirtIOGpu;
use virtio_drivers::device::input::VirtIOInput;
use virtio_drivers::device::net::{VirtIONet, VirtIONetRaw};
use virtio_drivers::device::rng::VirtIORng;
use virtio_drivers::device::rtc::VirtIORtc;
use virtio_drivers::device::socket::{VirtIOSocket, VsockAddr, VsockConnectionManager};
use virtio_drivers::device::sound::{PcmFeatures, PcmFormat, PcmRate, VirtIOSound};
use virtio_drivers::device::virtio_9p::VirtIO9p;
use virtio_drivers::transport::DeviceType;
use virtio_drivers::{Error, Result};

#[derive(Clone, Copy, Debug, PartialEq, Eq)]
pub enum Drv {
    Blk,
    Console,
    Gpu,
    Input,
    NetRaw,
    Net,
    Rng,
    Rtc,
    Socket,
    Sound,
    P9,
}
pub const ALL: [Drv; 11] = [Drv::Blk, Drv::Console, Drv::Gpu, Drv::Input, Drv::NetRaw, Drv::Net, Drv::Rng, Drv::Rtc, Drv::Socket, Drv::Sound, Drv::P9];

pub const RING_BITS: [u32; 4] = [28, 29, 32, 33];

impl Drv {
    pub fn name(self) -> &'static str {
        match self {
            Drv::Blk => "blk",
            Drv::Console => "console",
            Drv::Gpu => "gpu",
            Drv::Input => "input",
            Drv::NetRaw => "net_raw",
            Drv::Net => "net",
            Drv::Rng => "rng",
            Drv::Rtc => "rtc",
            Drv::Socket => "socket",
            Drv::Sound => "sound",
            Drv::P9 => "9p",
        }
    }
    pub fn device_type(self) -> DeviceType {
        match self {
            Drv::Blk => DeviceType::Block,
            Drv::Console => DeviceType::Console,
            Drv::Gpu => DeviceType::GPU,
            Drv::Input => DeviceType::Input,
            Drv::NetRaw | Drv::Net => DeviceType::Network,
            Drv::Rng => DeviceType::EntropySource,
            Drv::Rtc => DeviceType::Timer,
            Drv::Socket => DeviceType::Socket,
            Drv::Sound => DeviceType::Sound,
            Drv::P9 => DeviceType::_9P,
        }
    }
    /// Device-specific feature bits the library implements for this driver (Appendix B).
    pub fn implemented_specific(self) -> &'static [u32] {
        match self {
            Drv::Blk => &[5, 9],
            Drv::Console => &[0, 2],
            Drv::Gpu => &[1],
            Drv::NetRaw | Drv::Net => &[5, 16],
            Drv::P9 => &[0],
            _ => &[],
        }
    }
    pub fn implemented(self) -> u64 {
        let mut m = 0u64;
        for b in RING_BITS.iter().chain(self.implemented_specific().iter()) {
            m |= 1 << b;
        }
        m
    }
    /// A couple of device-specific bits the driver does NOT implement (must never be accepted).
    pub fn unimplemented_specific(self) -> &'static [u32] {
        match self {
            Drv::Blk => &[12, 11],
            Drv::Console => &[1],
            Drv::Gpu => &[0],
            Drv::NetRaw | Drv::Net => &[15, 17, 22],
            Drv::Rtc => &[0],
            Drv::Socket => &[0, 1],
            _ => &[],
        }
    }
    /// Bits whose every subset is enumerated by C08.
    pub fn relevant_bits(self) -> Vec<u32> {
        let mut v: Vec<u32> = RING_BITS.to_vec();
        v.extend_from_slice(self.implemented_specific());
        v.extend_from_slice(self.unimplemented_specific());
        v.truncate(9);
        v
    }
    pub fn queues(self) -> &'static [u16] {
        match self {
            Drv::Blk | Drv::Rng | Drv::Rtc | Drv::P9 => &[0],
            Drv::Console | Drv::Gpu | Drv::Input | Drv::NetRaw | Drv::Net => &[0, 1],
            Drv::Socket => &[0, 1, 2],
            Drv::Sound => &[0, 1, 2, 3],
        }
    }
    /// Queues the driver keeps stocked with its own buffers (never auto-completed by the responder).
    pub fn stocked_queues(self) -> &'static [u16] {
        match self {
            Drv::Console | Drv::Input | Drv::NetRaw | Drv::Net | Drv::Socket => &[0],
            Drv::Sound => &[1],
            _ => &[],
        }
    }
    /// Number of dma_alloc calls of an undisturbed construction on a modern / legacy layout.
    pub fn queue_count(self) -> usize {
        self.queues().len()
    }
    pub fn config(self) -> Vec<u8> {
        match self {
            Drv::Blk => {
                let mut c = vec![0u8; 64];
                c[..8].copy_from_slice(&0x1234_5678u64.to_le_bytes());
                c
            }
            Drv::Console => vec![80, 0, 25, 0, 1, 0, 0, 0, 0, 0, 0, 0],
            Drv::Gpu => vec![0, 0, 0, 0, 0, 0, 0, 0, 1, 0, 0, 0, 0, 0, 0, 0],
            Drv::Input => vec![0u8; 136],
            Drv::NetRaw | Drv::Net => vec![0x52, 0x54, 0, 1, 2, 3, 1, 0, 1, 0, 0xdc, 5],
            Drv::Rng | Drv::Rtc => vec![],
            Drv::Socket => 0x1_0000_0003u64.to_le_bytes().to_vec(),
            Drv::Sound => vec![1, 0, 0, 0, 2, 0, 0, 0, 1, 0, 0, 0],
            Drv::P9 => {
                let mut c = vec![4u8, 0];
                c.extend_from_slice(b"host");
                c.extend_from_slice(&[0, 0]);
                c
            }
        }
    }
}

pub enum Built {
    Blk(VirtIOBlk<LedgerHal, AnyT>),
    Console(VirtIOConsole<LedgerHal, AnyT>),
    Gpu(VirtIOGpu<LedgerHal, AnyT>),
    Input(VirtIOInput<LedgerHal, AnyT>),
    NetRaw(VirtIONetRaw<LedgerHal, AnyT, 4>),
    Net(VirtIONet<LedgerHal, AnyT, 4>),
    Rng(VirtIORng<LedgerHal, AnyT>),
    Rtc(VirtIORtc<LedgerHal, AnyT>),
    Socket(VsockConnectionManager<LedgerHal, AnyT>),
    Sound(VirtIOSound<LedgerHal, AnyT>),
    P9(VirtIO9p<LedgerHal, AnyT>),
}

pub fn construct(d: Drv, t: AnyT) -> Result<Built> {
    Ok(match d {
        Drv::Blk => Built::Blk(VirtIOBlk::new(t)?),
        Drv::Console => Built::Console(VirtIOConsole::new(t)?),
        Drv::Gpu => Built::Gpu(VirtIOGpu::new(t)?),
        Drv::Input => Built::Input(VirtIOInput::new(t)?),
        Drv::NetRaw => Built::NetRaw(VirtIONetRaw::new(t)?),
        Drv::Net => Built::Net(VirtIONet::new(t, 2048)?),
        Drv::Rng => Built::Rng(VirtIORng::new(t)?),
        Drv::Rtc => Built::Rtc(VirtIORtc::new(t)?),
        Drv::Socket => Built::Socket(VsockConnectionManager::new(VirtIOSocket::new(t)?)),
        Drv::Sound => Built::Sound(VirtIOSound::new(t)?),
        Drv::P9 => Built::P9(VirtIO9p::new(t)?),
    })
}

fn le32(v: u32) -> [u8; 4] {
    v.to_le_bytes()
}

/// Install a responder that answers every request of driver `d` plausibly (success).
pub fn install_auto_responder(d: Drv, dev: &mut CmdDev) {
    dev.manual = d.stocked_queues().to_vec();
    let h: Box<dyn FnMut(&Req) -> (Vec<u8>, Option<u32>)> = match d {
        Drv::Blk => Box::new(|r: &Req| (vec![0u8; r.wcap], None)),
        Drv::Gpu => Box::new(|r: &Req| {
            if r.q != 0 || r.readable.len() < 4 {
                return (vec![], None);
            }
            let ty = u32::from_le_bytes(r.readable[0..4].try_into().unwrap());
            let rt: u32 = match ty {
                0x100 => 0x1101,
                0x10a => 0x1104,
                _ => 0x1100,
            };
            let mut v = le32(rt).to_vec();
            v.extend_from_slice(&[0u8; 20]);
            if ty == 0x100 {
                for x in [0u32, 0, 64, 48, 1, 0] {
                    v.extend_from_slice(&le32(x));
                }
            }
            if ty == 0x10a {
                v.extend_from_slice(&le32(128));
                v.extend_from_slice(&le32(0));
                v.extend_from_slice(&[0u8; 1024]);
            }
            (v, None)
        }),
        Drv::Rng => Box::new(|r: &Req| (vec![0x5a; r.wcap], None)),
        Drv::Rtc => Box::new(|r: &Req| {
            let mut v = vec![0u8; r.wcap];
            if v.len() > 8 {
                v[8] = 3;
            }
            (v, None)
        }),
        Drv::P9 => Box::new(|_r: &Req| {
            let mut v = le32(7).to_vec();
            v.extend_from_slice(&[0x6b, 1, 0]);
            (v, Some(7))
        }),
        Drv::Sound => Box::new(|r: &Req| {
            let mut v = le32(0x8000).to_vec();
            v.resize(r.wcap, 0);
            if r.q == 2 {
                // pcm status {OK, latency}
                (v, Some(8))
            } else {
                (v, None)
            }
        }),
        // console / net / socket: transmit chains have nothing to answer
        _ => Box::new(|_r: &Req| (vec![], Some(0))),
    };
    dev.handler = Some(h);
}

/// A short, contract-respecting usage script.  Returns the names of the calls made.
pub fn use_briefly(b: &mut Built, ops: &mut Vec<&'static str>) -> std::result::Result<(), (String, Error)> {
    macro_rules! call {
        ($name:expr, $e:expr) => {{
            ops.push($name);
            $e.map_err(|e| ($name.to_string(), e))?
        }};
    }
    match b {
        Built::Blk(x) => {
            let mut buf = [0u8; 512];
            call!("read_blocks", x.read_blocks(3, &mut buf));
            call!("write_blocks", x.write_blocks(4, &buf));
            call!("flush", x.flush());
            let mut id = [0u8; 20];
            call!("device_id", x.device_id(&mut id));
        }
        Built::Console(x) => {
            call!("send", x.send(b'x'));
            call!("send_bytes", x.send_bytes(b"hello"));
            call!("size", x.size());
            ops.push("emergency_write");
            let _ = x.emergency_write(b'!');
            call!("recv(false)", x.recv(false));
        }
        Built::Gpu(x) => {
            call!("resolution", x.resolution());
            ops.push("get_edid");
            match x.get_edid(0) {
                Ok(_) | Err(Error::Unsupported) => {}
                Err(e) => return Err(("get_edid".into(), e)),
            }
            call!("setup_framebuffer", x.setup_framebuffer().map(|_| ()));
            call!("flush", x.flush());
        }
        Built::Input(x) => {
            ops.push("pop_pending_event");
            let _ = x.pop_pending_event();
        }
        Built::NetRaw(x) => {
            call!("send", x.send(&[1, 2, 3, 4]));
            // an empty frame is a header-only chain: the header size must follow VERSION_1 there too (seed S132)
            call!("send", x.send(&[]));
            let mut b = [0u8; 32];
            call!("fill_buffer_header", x.fill_buffer_header(&mut b));
        }
        Built::Net(x) => {
            let tb = x.new_tx_buffer(60);
            call!("send", x.send(tb));
            let tb = x.new_tx_buffer(0);
            call!("send", x.send(tb));
            ops.push("can_recv");
            let _ = x.can_recv();
        }
        Built::Rng(x) => {
            let mut b = [0u8; 32];
            call!("request_entropy", x.request_entropy(&mut b));
        }
        Built::Rtc(x) => {
            call!("num_clocks", x.num_clocks());
            call!("read", x.read(0));
        }
        Built::Socket(x) => {
            call!("connect", x.connect(VsockAddr { cid: 2, port: 77 }, 5));
            ops.push("poll");
            let _ = x.poll();
        }
        Built::Sound(x) => {
            call!("pcm_set_params", x.pcm_set_params(0, 128, 64, PcmFeatures::empty(), 2, PcmFormat::S16, PcmRate::Rate44100));
            call!("pcm_prepare", x.pcm_prepare(0));
            call!("pcm_xfer", x.pcm_xfer(0, &[7u8; 200]));
        }
        Built::P9(x) => {
            let mut resp = [0u8; 32];
            call!("request", x.request(&[1, 2, 3], &mut resp));
            ops.push("mount_tag");
            let _ = x.mount_tag();
        }
    }
    Ok(())
}

/// Deliver one item on the driver-stocked queue (if the driver has one) and consume it through the
/// public API, so that feature-gated queue mechanisms are exercised on that queue as well.
pub fn exercise_stocked(b: &mut Built, dev: &std::rc::Rc<std::cell::RefCell<CmdDev>>, ops: &mut Vec<&'static str>, negotiated: u64) -> std::result::Result<(), (String, Error)> {
    match b {
        Built::Console(x) => {
            for _ in 0..2 {
                if dev.borrow_mut().complete_manual(0, b"ok") {
                    ops.push("recv(true) x2");
                    for _ in 0..2 {
                        let r = x.recv(true).map_err(|e| ("recv".to_string(), e))?;
                        if r.is_none() {
                            return Err(("recv returned None after the device delivered a chunk".into(), Error::NotReady));
                        }
                    }
                }
            }
        }
        Built::Input(x) => {
            for _ in 0..2 {
                if dev.borrow_mut().complete_manual(0, &[1, 0, 2, 0, 3, 0, 0, 0]) {
                    ops.push("pop_pending_event");
                    if x.pop_pending_event().is_none() {
                        return Err(("pop_pending_event returned None after the device delivered an event".into(), Error::NotReady));
                    }
                }
            }
        }
        Built::Net(x) => {
            let hdr = if negotiated & (1 << 32) != 0 { 12 } else { 10 };
            for _ in 0..2 {
                let mut f = vec![0u8; hdr];
                f.extend_from_slice(&[9u8; 60]);
                if dev.borrow_mut().complete_manual(0, &f) {
                    ops.push("receive+recycle");
                    let rb = x.receive().map_err(|e| ("receive".to_string(), e))?;
                    if rb.packet_len() != 60 {
                        return Err((format!("received packet_len {} for a 60-byte frame behind a {}-byte header", rb.packet_len(), hdr), Error::IoError));
                    }
                    x.recycle_rx_buffer(rb).map_err(|e| ("recycle_rx_buffer".to_string(), e))?;
                }
            }
        }
        Built::Sound(x) => {
            for _ in 0..2 {
                if dev.borrow_mut().complete_manual(1, &[0, 0x11, 0, 0, 5, 0, 0, 0]) {
                    ops.push("latest_notification");
                    x.latest_notification().map_err(|e| ("latest_notification".to_string(), e))?;
                }
            }
        }
        Built::Socket(x) => {
            // a credit update for a connection that does not exist: ignored, buffer returned
            let mut p = vec![0u8; 44];
            p[0] = 2;
            p[8..16].copy_from_slice(&0x1_0000_0003u64.to_le_bytes());
            p[28] = 1;
            p[30] = 6;
            for _ in 0..2 {
                if dev.borrow_mut().complete_manual(0, &p) {
                    ops.push("poll");
                    x.poll().map_err(|e| ("poll".to_string(), e))?;
                }
            }
        }
        _ => {}
    }
    Ok(())
}
