//! One merged, ordered event log (ledger events, transport events, allocator-spy events).
//! Disabled by default; C08/C09 style checks enable it per case.
use crate::mem::Dir;
use std::cell::RefCell;

#[derive(Clone, Debug, PartialEq)]
pub enum Ev {
    DmaAlloc { paddr: u64, pages: usize, dir: Dir },
    DmaAllocFail { pages: usize },
    DmaDealloc { paddr: u64, pages: usize, ok: bool },
    Share { paddr: u64, vaddr: usize, len: usize, dir: Dir },
    Unshare { paddr: u64, vaddr: usize, len: usize, dir: Dir, ok: bool },
    /// A heap free of a range that is currently shared with the device.
    HeapFreeShared { ptr: usize, size: usize },
    // transport-level events (ModelTransport calls, or decoded register writes of the real transports)
    SetStatus(u32),
    ReadFeatures(u64),
    WriteFeatures(u64),
    MaxQueueSize { q: u16, ret: u32 },
    QueueUsed { q: u16, ret: bool },
    QueueSet { q: u16, size: u32, desc: u64, driver: u64, device: u64 },
    QueueUnset { q: u16 },
    Notify { q: u16 },
    GuestPageSize(u32),
    AckInterrupt(u32),
    ConfigRead { off: usize, len: usize },
    ConfigWrite { off: usize, len: usize },
    ConfigGen(u32),
    /// The transport object was dropped (real transports reset the device here).
    TransportDrop,
    Note(&'static str),
}

/// Global sequence number of the next log entry (readable from the allocator spy without TLS).
pub static SEQ: std::sync::atomic::AtomicU64 = std::sync::atomic::AtomicU64::new(0);

thread_local! {
    static ENABLED: RefCell<bool> = const { RefCell::new(false) };
    static LOG: RefCell<Vec<Ev>> = const { RefCell::new(Vec::new()) };
}

pub fn enable(on: bool) {
    ENABLED.with(|e| *e.borrow_mut() = on);
    LOG.with(|l| l.borrow_mut().clear());
    SEQ.store(0, std::sync::atomic::Ordering::Relaxed);
}
pub fn log(ev: Ev) {
    let on = ENABLED.with(|e| *e.borrow());
    if on {
        LOG.with(|l| {
            let mut l = l.borrow_mut();
            if l.len() < 1_000_000 {
                l.push(ev);
                SEQ.store(l.len() as u64, std::sync::atomic::Ordering::Relaxed);
            }
        });
    }
}
pub fn take() -> Vec<Ev> {
    SEQ.store(0, std::sync::atomic::Ordering::Relaxed);
    LOG.with(|l| std::mem::take(&mut *l.borrow_mut()))
}
pub fn len() -> usize {
    LOG.with(|l| l.borrow().len())
}
