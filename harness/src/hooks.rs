//! Bridges the library's `cfg(virtio_drivers_verif)` hooks to per-thread harness callbacks.
use std::cell::{Cell, RefCell};
pub use virtio_drivers::verif::DmaAccess;

type SpinCb = Box<dyn FnMut()>;
type DmaCb = Box<dyn FnMut(DmaAccess, u16)>;

thread_local! {
    static SPIN: RefCell<Option<SpinCb>> = const { RefCell::new(None) };
    static DMA: RefCell<Option<DmaCb>> = const { RefCell::new(None) };
    pub static SPIN_CALLS: Cell<u64> = const { Cell::new(0) };
    pub static DMA_CALLS: Cell<u64> = const { Cell::new(0) };
    pub static STORE_CALLS: Cell<u64> = const { Cell::new(0) };
}

/// Puts a callback back into its slot when dropped - also when the callback unwinds (a monitor that
/// aborts a busy-wait loop by panicking must stay installed for the next wait).
struct RestoreSpin(Option<SpinCb>);
impl Drop for RestoreSpin {
    fn drop(&mut self) {
        if let Some(cb) = self.0.take() {
            SPIN.with(|s| {
                let mut s = s.borrow_mut();
                if s.is_none() {
                    *s = Some(cb);
                }
            });
        }
    }
}
struct RestoreDma(Option<DmaCb>);
impl Drop for RestoreDma {
    fn drop(&mut self) {
        if let Some(cb) = self.0.take() {
            DMA.with(|s| {
                let mut s = s.borrow_mut();
                if s.is_none() {
                    *s = Some(cb);
                }
            });
        }
    }
}

fn spin_tramp() {
    SPIN_CALLS.with(|c| c.set(c.get() + 1));
    let cb = SPIN.with(|s| s.borrow_mut().take());
    let mut g = RestoreSpin(cb);
    if let Some(cb) = g.0.as_mut() {
        cb();
    }
}

pub fn is_store(k: DmaAccess) -> bool {
    matches!(k, DmaAccess::StoreDesc | DmaAccess::StoreAvailRing | DmaAccess::StoreAvailIdx | DmaAccess::StoreAvailFlags | DmaAccess::StoreUsedEvent)
}

fn dma_tramp(kind: DmaAccess, q: u16) {
    DMA_CALLS.with(|c| c.set(c.get() + 1));
    if is_store(kind) {
        STORE_CALLS.with(|c| c.set(c.get() + 1));
    }
    let cb = DMA.with(|s| s.borrow_mut().take());
    let mut g = RestoreDma(cb);
    if let Some(cb) = g.0.as_mut() {
        cb(kind, q);
    }
}

pub fn install() {
    virtio_drivers::verif::set_hooks(spin_tramp, dma_tramp);
}
pub fn set_spin(cb: impl FnMut() + 'static) {
    SPIN.with(|s| *s.borrow_mut() = Some(Box::new(cb)));
}
pub fn set_dma(cb: impl FnMut(DmaAccess, u16) + 'static) {
    DMA.with(|s| *s.borrow_mut() = Some(Box::new(cb)));
}
pub fn clear() {
    SPIN.with(|s| *s.borrow_mut() = None);
    DMA.with(|s| *s.borrow_mut() = None);
}
pub fn store_calls() -> u64 {
    STORE_CALLS.with(|c| c.get())
}
pub fn dma_calls() -> u64 {
    DMA_CALLS.with(|c| c.get())
}
pub fn spin_calls() -> u64 {
    SPIN_CALLS.with(|c| c.get())
}
