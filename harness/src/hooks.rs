//! Bridges the library's `cfg(virtio_drivers_verif)` hooks to per-thread harness callbacks.
use std::cell::{Cell, RefCell};
pub use virtio_drivers::verif::DmaAccess;

type SpinCb = Box<dyn FnMut()>;
type DmaCb = Box<dyn FnMut(DmaAccess, u16)>;

thread_local! {
    static SPIN: RefCell<Option<SpinCb>> = const { RefCell::new(None) };
    static DMA: RefCell<Option<DmaCb>> = const { RefCell::new(None) };
    pub static SPIN_CALLS: Cell<u64> = const { Cell::new(0) };
    pub static DMA_CALLS: Cell<u64> = const { Cell::new(0) };
    pub static STORE_CALLS: Cell<u64> = const { Cell::new(0) };
}

fn spin_tramp() {
    SPIN_CALLS.with(|c| c.set(c.get() + 1));
    let cb = SPIN.with(|s| s.borrow_mut().take());
    if let Some(mut cb) = cb {
        cb();
        SPIN.with(|s| {
            let mut s = s.borrow_mut();
            if s.is_none() {
                *s = Some(cb);
            }
        });
    }
}

pub fn is_store(k: DmaAccess) -> bool {
    matches!(k, DmaAccess::StoreDesc | DmaAccess::StoreAvailRing | DmaAccess::StoreAvailIdx | DmaAccess::StoreAvailFlags | DmaAccess::StoreUsedEvent)
}

fn dma_tramp(kind: DmaAccess, q: u16) {
    DMA_CALLS.with(|c| c.set(c.get() + 1));
    if is_store(kind) {
        STORE_CALLS.with(|c| c.set(c.get() + 1));
    }
    let cb = DMA.with(|s| s.borrow_mut().take());
    if let Some(mut cb) = cb {
        cb(kind, q);
        DMA.with(|s| {
            let mut s = s.borrow_mut();
            if s.is_none() {
                *s = Some(cb);
            }
        });
    }
}

pub fn install() {
    virtio_drivers::verif::set_hooks(spin_tramp, dma_tramp);
}
pub fn set_spin(cb: impl FnMut() + 'static) {
    SPIN.with(|s| *s.borrow_mut() = Some(Box::new(cb)));
}
pub fn set_dma(cb: impl FnMut(DmaAccess, u16) + 'static) {
    DMA.with(|s| *s.borrow_mut() = Some(Box::new(cb)));
}
pub fn clear() {
    SPIN.with(|s| *s.borrow_mut() = None);
    DMA.with(|s| *s.borrow_mut() = None);
}
pub fn store_calls() -> u64 {
    STORE_CALLS.with(|c| c.get())
}
pub fn dma_calls() -> u64 {
    DMA_CALLS.with(|c| c.get())
}
pub fn spin_calls() -> u64 {
    SPIN_CALLS.with(|c| c.get())
}
