//! Minimal JSON value + writer (no serde available offline for this purpose; hand-rolled).
use std::collections::BTreeMap;
use std::fmt::Write;

#[derive(Clone, Debug, PartialEq)]
pub enum J {
    Null,
    Bool(bool),
    Int(i128),
    Float(f64),
    Str(String),
    Arr(Vec<J>),
    Obj(BTreeMap<String, J>),
}

impl J {
    pub fn obj() -> J {
        J::Obj(BTreeMap::new())
    }
    pub fn set(&mut self, k: &str, v: J) -> &mut J {
        if let J::Obj(m) = self {
            m.insert(k.to_string(), v);
        }
        self
    }
    pub fn with(mut self, k: &str, v: J) -> J {
        self.set(k, v);
        self
    }
    pub fn s(v: impl Into<String>) -> J {
        J::Str(v.into())
    }
    pub fn i(v: impl Into<i128>) -> J {
        J::Int(v.into())
    }
    pub fn u(v: u64) -> J {
        J::Int(v as i128)
    }
    pub fn us(v: usize) -> J {
        J::Int(v as i128)
    }
    pub fn arr<I: IntoIterator<Item = J>>(it: I) -> J {
        J::Arr(it.into_iter().collect())
    }
    pub fn write(&self, out: &mut String) {
        match self {
            J::Null => out.push_str("null"),
            J::Bool(b) => out.push_str(if *b { "true" } else { "false" }),
            J::Int(i) => {
                let _ = write!(out, "{}", i);
            }
            J::Float(f) => {
                if f.is_finite() {
                    let _ = write!(out, "{}", f);
                } else {
                    out.push_str("null");
                }
            }
            J::Str(s) => write_str(s, out),
            J::Arr(a) => {
                out.push('[');
                for (i, v) in a.iter().enumerate() {
                    if i > 0 {
                        out.push(',');
                    }
                    v.write(out);
                }
                out.push(']');
            }
            J::Obj(m) => {
                out.push('{');
                for (i, (k, v)) in m.iter().enumerate() {
                    if i > 0 {
                        out.push(',');
                    }
                    write_str(k, out);
                    out.push(':');
                    v.write(out);
                }
                out.push('}');
            }
        }
    }
    pub fn to_string(&self) -> String {
        let mut s = String::new();
        self.write(&mut s);
        s
    }
}

fn write_str(s: &str, out: &mut String) {
    out.push('"');
    for c in s.chars() {
        match c {
            '"' => out.push_str("\\\""),
            '\\' => out.push_str("\\\\"),
            '\n' => out.push_str("\\n"),
            '\r' => out.push_str("\\r"),
            '\t' => out.push_str("\\t"),
            c if (c as u32) < 0x20 => {
                let _ = write!(out, "\\u{:04x}", c as u32);
            }
            c => out.push(c),
        }
    }
    out.push('"');
}

// ---- tiny parser (only used for replay files written by this crate) ----
pub fn parse(s: &str) -> Result<J, String> {
    let b = s.as_bytes();
    let mut p = 0usize;
    let v = parse_val(b, &mut p)?;
    skip_ws(b, &mut p);
    if p != b.len() {
        return Err(format!("trailing data at {}", p));
    }
    Ok(v)
}
fn skip_ws(b: &[u8], p: &mut usize) {
    while *p < b.len() && (b[*p] as char).is_whitespace() {
        *p += 1;
    }
}
fn parse_val(b: &[u8], p: &mut usize) -> Result<J, String> {
    skip_ws(b, p);
    if *p >= b.len() {
        return Err("eof".into());
    }
    match b[*p] {
        b'{' => {
            *p += 1;
            let mut m = BTreeMap::new();
            loop {
                skip_ws(b, p);
                if *p < b.len() && b[*p] == b'}' {
                    *p += 1;
                    break;
                }
                let k = match parse_val(b, p)? {
                    J::Str(s) => s,
                    _ => return Err("key".into()),
                };
                skip_ws(b, p);
                if *p >= b.len() || b[*p] != b':' {
                    return Err("colon".into());
                }
                *p += 1;
                let v = parse_val(b, p)?;
                m.insert(k, v);
                skip_ws(b, p);
                if *p < b.len() && b[*p] == b',' {
                    *p += 1;
                }
            }
            Ok(J::Obj(m))
        }
        b'[' => {
            *p += 1;
            let mut a = vec![];
            loop {
                skip_ws(b, p);
                if *p < b.len() && b[*p] == b']' {
                    *p += 1;
                    break;
                }
                a.push(parse_val(b, p)?);
                skip_ws(b, p);
                if *p < b.len() && b[*p] == b',' {
                    *p += 1;
                }
            }
            Ok(J::Arr(a))
        }
        b'"' => {
            *p += 1;
            let mut s = String::new();
            while *p < b.len() && b[*p] != b'"' {
                if b[*p] == b'\\' {
                    *p += 1;
                    match b[*p] {
                        b'n' => s.push('\n'),
                        b't' => s.push('\t'),
                        b'r' => s.push('\r'),
                        b'u' => {
                            let h = std::str::from_utf8(&b[*p + 1..*p + 5]).map_err(|e| e.to_string())?;
                            let c = u32::from_str_radix(h, 16).map_err(|e| e.to_string())?;
                            s.push(char::from_u32(c).unwrap_or('?'));
                            *p += 4;
                        }
                        c => s.push(c as char),
                    }
                    *p += 1;
                } else {
                    // copy utf8 bytes
                    let start = *p;
                    *p += 1;
                    while *p < b.len() && (b[*p] & 0xc0) == 0x80 {
                        *p += 1;
                    }
                    s.push_str(std::str::from_utf8(&b[start..*p]).map_err(|e| e.to_string())?);
                }
            }
            *p += 1;
            Ok(J::Str(s))
        }
        b't' => {
            *p += 4;
            Ok(J::Bool(true))
        }
        b'f' => {
            *p += 5;
            Ok(J::Bool(false))
        }
        b'n' => {
            *p += 4;
            Ok(J::Null)
        }
        _ => {
            let start = *p;
            while *p < b.len() && (b[*p] == b'-' || b[*p] == b'+' || b[*p] == b'.' || b[*p] == b'e' || b[*p] == b'E' || b[*p].is_ascii_digit()) {
                *p += 1;
            }
            let t = std::str::from_utf8(&b[start..*p]).map_err(|e| e.to_string())?;
            if let Ok(i) = t.parse::<i128>() {
                Ok(J::Int(i))
            } else {
                t.parse::<f64>().map(J::Float).map_err(|e| format!("num {:?}: {}", t, e))
            }
        }
    }
}
impl J {
    pub fn get(&self, k: &str) -> Option<&J> {
        if let J::Obj(m) = self { m.get(k) } else { None }
    }
    pub fn as_u64(&self) -> Option<u64> {
        if let J::Int(i) = self { Some(*i as u64) } else { None }
    }
    pub fn as_str(&self) -> Option<&str> {
        if let J::Str(s) = self { Some(s) } else { None }
    }
    pub fn as_arr(&self) -> Option<&Vec<J>> {
        if let J::Arr(a) = self { Some(a) } else { None }
    }
}
