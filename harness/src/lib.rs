//! Runtime-monitoring harness for rcore-os/virtio-drivers (see /verif/DESIGN.md).
#![allow(clippy::too_many_arguments, clippy::type_complexity, clippy::new_without_default)]
#![allow(static_mut_refs)]

pub mod alloc_spy;
pub mod devsim;
pub mod drivers;
pub mod evlog;
pub mod hooks;
pub mod json;
pub mod mem;
pub mod mmio_bus;
pub mod qcore;
pub mod report;
pub mod rng;
pub mod vqdev;
pub mod xport_any;
pub mod xport_mmio;
pub mod xport_model;
pub mod xport_pci;

pub mod checks;
