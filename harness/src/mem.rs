//! LedgerHal: the platform boundary (DESIGN §2.1).
//!
//! Every `Hal` call is recorded in a per-thread ledger.  DMA regions get synthetic physical
//! addresses; shared buffers are bounced to fresh synthetic addresses (Bounce mode) or aliased
//! (Identity mode).  The device side of the harness may only touch memory through
//! `dev_read`/`dev_write`, which resolve synthetic addresses against live regions / active shares.

use crate::evlog::{self, Ev};
use std::alloc::{Layout, alloc_zeroed, dealloc};
use std::cell::RefCell;
use std::collections::BTreeMap;
use std::ptr::NonNull;
use virtio_drivers::{BufferDirection, Hal, PhysAddr};

pub const PAGE: usize = 4096;
pub const DMA_BASE: u64 = 0x0000_0010_0000_0000;
pub const SHARE_BASE: u64 = 0x0000_4000_0000_0000;
/// virtual = physical + MMIO_VOFF for `mmio_phys_to_virt` (fabricated; only the MMIO bus interprets it).
pub const MMIO_VOFF: u64 = 0x0000_2000_0000_0000;

#[derive(Clone, Copy, Debug, PartialEq, Eq, PartialOrd, Ord)]
pub enum Dir {
    ToDev,
    FromDev,
    Both,
}
impl From<BufferDirection> for Dir {
    fn from(d: BufferDirection) -> Self {
        match d {
            BufferDirection::DriverToDevice => Dir::ToDev,
            BufferDirection::DeviceToDriver => Dir::FromDev,
            BufferDirection::Both => Dir::Both,
        }
    }
}
impl Dir {
    pub fn name(self) -> &'static str {
        match self {
            Dir::ToDev => "to_dev",
            Dir::FromDev => "from_dev",
            Dir::Both => "both",
        }
    }
}

#[derive(Clone, Copy, Debug, PartialEq, Eq)]
pub enum HalMode {
    /// Every shared buffer is copied to a bounce buffer at a distinct synthetic address.
    Bounce,
    /// The device address aliases the caller's memory (machine without IOMMU).
    Identity,
}

pub struct Region {
    pub paddr: u64,
    pub ptr: *mut u8,
    pub pages: usize,
    pub dir: Dir,
    pub ap: bool,
    pub seq: u64,
}
impl Region {
    pub fn len(&self) -> usize {
        self.pages * PAGE
    }
}

pub struct Share {
    pub paddr: u64,
    pub vaddr: usize,
    pub len: usize,
    pub dir: Dir,
    pub ap: bool,
    pub seq: u64,
    caller: *mut u8,
    /// bounce buffer (raw, so that the device side may write through it); freed in `retire_bounce`
    bounce: Option<*mut u8>,
}

fn retire_bounce(p: *mut u8, len: usize) {
    // SAFETY: `p` came from Box::<[u8]>::into_raw of a boxed slice of `len` bytes and is freed exactly once.
    unsafe { drop(Box::from_raw(std::ptr::slice_from_raw_parts_mut(p, len))) };
}

#[derive(Clone, Debug)]
pub struct ShareRec {
    pub paddr: u64,
    pub vaddr: usize,
    pub len: usize,
    pub dir: Dir,
    pub ap: bool,
    pub seq: u64,
}

#[derive(Clone, Debug)]
pub struct Viol {
    pub rule: &'static str,
    pub detail: String,
}

#[derive(Default, Clone, Debug)]
pub struct Counters {
    pub dma_alloc: u64,
    pub dma_alloc_failed: u64,
    pub dma_dealloc: u64,
    pub share: u64,
    pub unshare: u64,
    pub bytes_to_dev: u64,
    pub bytes_from_dev: u64,
    pub dev_reads: u64,
    pub dev_writes: u64,
    pub phys_to_virt: u64,
}

pub struct Ledger {
    pub mode: HalMode,
    pub regions: BTreeMap<u64, Region>,
    pub dead_regions: Vec<(u64, usize, u64)>, // paddr, len, seq at free
    pub shares: BTreeMap<u64, Share>,
    next_dma: u64,
    next_share: u64,
    pub seq: u64,
    /// Fail the k-th (1-based) dma_alloc call (returns paddr 0).
    pub fail_alloc_at: Option<u64>,
    pub alloc_calls: u64,
    pub c: Counters,
    pub violations: Vec<Viol>,
    /// Shares / unshares since the last `take_*` (cleared by the workload around each API call).
    pub share_log: Vec<ShareRec>,
    pub unshare_log: Vec<ShareRec>,
    pub log_shares: bool,
    /// If set, every Hal call must carry this access_platform value.
    pub expect_ap: Option<bool>,
    pub p2v_requests: Vec<(u64, usize)>,
    /// C07 scribbling experiments: the device is allowed to write driver-to-device memory.
    pub allow_illegal_dev_writes: bool,
    /// Poison pattern for DeviceToDriver bounce buffers.
    pub poison: u8,
    /// Number of Hal calls seen with access_platform = false / true.
    pub ap_calls: [u64; 2],
}

impl Default for Ledger {
    fn default() -> Self {
        Ledger {
            mode: HalMode::Bounce,
            regions: BTreeMap::new(),
            dead_regions: vec![],
            shares: BTreeMap::new(),
            next_dma: DMA_BASE,
            next_share: SHARE_BASE,
            seq: 0,
            fail_alloc_at: None,
            alloc_calls: 0,
            c: Counters::default(),
            violations: vec![],
            share_log: vec![],
            unshare_log: vec![],
            log_shares: true,
            expect_ap: None,
            p2v_requests: vec![],
            allow_illegal_dev_writes: false,
            poison: 0xA5,
            ap_calls: [0, 0],
        }
    }
}

thread_local! {
    pub static LEDGER: RefCell<Ledger> = RefCell::new(Ledger::default());
}

pub fn with<R>(f: impl FnOnce(&mut Ledger) -> R) -> R {
    LEDGER.with(|l| f(&mut l.borrow_mut()))
}

/// Free everything still held by the ledger and start afresh.  Returns (live regions, active shares)
/// that were still present (leaks as seen by the ledger).
pub fn reset(mode: HalMode) -> (usize, usize) {
    with(|l| {
        let r = l.regions.len();
        let s = l.shares.len();
        for (_, reg) in std::mem::take(&mut l.regions) {
            // SAFETY: allocated by alloc_zeroed with this layout and not yet freed.
            unsafe { dealloc(reg.ptr, Layout::from_size_align(reg.len(), PAGE).unwrap()) };
        }
        for (_, sh) in std::mem::take(&mut l.shares) {
            if let Some(b) = sh.bounce {
                retire_bounce(b, sh.len);
            }
        }
        crate::alloc_spy::clear();
        *l = Ledger::default();
        l.mode = mode;
        (r, s)
    })
}

impl Ledger {
    pub fn viol(&mut self, rule: &'static str, detail: String) {
        if self.violations.len() < 64 {
            self.violations.push(Viol { rule, detail });
        }
    }
    pub fn take_violations(&mut self) -> Vec<Viol> {
        std::mem::take(&mut self.violations)
    }
    pub fn take_share_log(&mut self) -> Vec<ShareRec> {
        std::mem::take(&mut self.share_log)
    }
    pub fn take_unshare_log(&mut self) -> Vec<ShareRec> {
        std::mem::take(&mut self.unshare_log)
    }
    fn check_ap(&mut self, what: &'static str, ap: bool) {
        self.ap_calls[ap as usize] += 1;
        if let Some(e) = self.expect_ap {
            if e != ap {
                self.viol("hal_access_platform_mismatch", format!("{} called with access_platform={} but negotiated={}", what, ap, e));
            }
        }
    }

    // ---------------- driver side (called from the Hal impl) ----------------

    fn dma_alloc(&mut self, pages: usize, dir: Dir, ap: bool) -> (u64, NonNull<u8>) {
        self.alloc_calls += 1;
        self.check_ap("dma_alloc", ap);
        if self.fail_alloc_at == Some(self.alloc_calls) {
            self.c.dma_alloc_failed += 1;
            evlog::log(Ev::DmaAllocFail { pages });
            return (0, NonNull::dangling());
        }
        if pages == 0 {
            self.viol("dma_alloc_zero_pages", "dma_alloc(0 pages)".into());
            return (0, NonNull::dangling());
        }
        let len = pages * PAGE;
        // SAFETY: non-zero size, valid alignment.
        let ptr = unsafe { alloc_zeroed(Layout::from_size_align(len, PAGE).unwrap()) };
        assert!(!ptr.is_null(), "harness OOM");
        let paddr = self.next_dma;
        // guard gap of one page between regions
        self.next_dma += (len + PAGE) as u64;
        self.seq += 1;
        self.c.dma_alloc += 1;
        self.regions.insert(paddr, Region { paddr, ptr, pages, dir, ap, seq: self.seq });
        evlog::log(Ev::DmaAlloc { paddr, pages, dir });
        (paddr, NonNull::new(ptr).unwrap())
    }

    fn dma_dealloc(&mut self, paddr: u64, vaddr: NonNull<u8>, pages: usize, ap: bool) -> i32 {
        self.check_ap("dma_dealloc", ap);
        self.seq += 1;
        match self.regions.get(&paddr) {
            None => {
                if self.dead_regions.iter().any(|d| d.0 == paddr) {
                    self.viol("dma_dealloc_twice", format!("dma_dealloc(paddr={:#x}) of an already released region", paddr));
                } else {
                    self.viol("dma_dealloc_unknown", format!("dma_dealloc(paddr={:#x}) of a region never allocated", paddr));
                }
                evlog::log(Ev::DmaDealloc { paddr, pages, ok: false });
                0
            }
            Some(r) => {
                let ok = r.ptr == vaddr.as_ptr() && r.pages == pages && r.ap == ap;
                if !ok {
                    let d = format!(
                        "dma_dealloc(paddr={:#x}, vaddr={:p}, pages={}, ap={}) but allocated with vaddr={:p}, pages={}, ap={}",
                        paddr, vaddr.as_ptr(), pages, ap, r.ptr, r.pages, r.ap
                    );
                    self.viol("dma_dealloc_mismatch", d);
                }
                let r = self.regions.remove(&paddr).unwrap();
                self.dead_regions.push((r.paddr, r.len(), self.seq));
                // SAFETY: allocated by alloc_zeroed with this layout, not yet freed.
                unsafe {
                    std::ptr::write_bytes(r.ptr, 0xDD, r.len());
                    dealloc(r.ptr, Layout::from_size_align(r.len(), PAGE).unwrap());
                }
                self.c.dma_dealloc += 1;
                evlog::log(Ev::DmaDealloc { paddr, pages, ok });
                0
            }
        }
    }

    fn share(&mut self, buffer: NonNull<[u8]>, dir: Dir, ap: bool) -> u64 {
        self.check_ap("share", ap);
        self.seq += 1;
        self.c.share += 1;
        let len = buffer.len();
        let caller = buffer.as_ptr() as *mut u8;
        let vaddr = caller as usize;
        if dir == Dir::Both {
            self.viol("share_both", format!("share(vaddr={:#x}, len={}) with direction Both", vaddr, len));
        }
        if len == 0 {
            self.viol("share_empty", format!("share(vaddr={:#x}) of an empty buffer", vaddr));
        }
        let (paddr, bounce) = match self.mode {
            HalMode::Bounce => {
                let paddr = self.next_share;
                // 64-byte aligned, never reused, one guard line between buffers
                self.next_share += ((len as u64 + 63) & !63) + 64;
                let b = Box::into_raw(vec![self.poison; len].into_boxed_slice()) as *mut u8;
                if dir != Dir::FromDev {
                    // SAFETY: the caller of `share` promises `buffer` is valid for reads; `b` has `len` bytes.
                    unsafe { std::ptr::copy_nonoverlapping(caller as *const u8, b, len) };
                    self.c.bytes_to_dev += len as u64;
                }
                (paddr, Some(b))
            }
            HalMode::Identity => (vaddr as u64, None),
        };
        if self.shares.contains_key(&paddr) {
            // only possible in identity mode: same buffer shared twice
            self.viol("share_twice", format!("share(vaddr={:#x}, len={}) while the same address is still shared", vaddr, len));
        }
        let seq = self.seq;
        if self.log_shares {
            self.share_log.push(ShareRec { paddr, vaddr, len, dir, ap, seq });
        }
        crate::alloc_spy::add_range(vaddr, len);
        evlog::log(Ev::Share { paddr, vaddr, len, dir });
        self.shares.insert(paddr, Share { paddr, vaddr, len, dir, ap, seq, caller, bounce });
        paddr
    }

    fn unshare(&mut self, paddr: u64, buffer: NonNull<[u8]>, dir: Dir, ap: bool) {
        self.check_ap("unshare", ap);
        self.seq += 1;
        self.c.unshare += 1;
        let len = buffer.len();
        let caller = buffer.as_ptr() as *mut u8;
        let vaddr = caller as usize;
        let Some(s) = self.shares.get(&paddr) else {
            let issued = match self.mode {
                HalMode::Bounce => paddr >= SHARE_BASE && paddr < self.next_share,
                HalMode::Identity => false,
            };
            if issued {
                self.viol("unshare_twice", format!("unshare(paddr={:#x}, vaddr={:#x}, len={}): address is not (or no longer) shared", paddr, vaddr, len));
            } else {
                self.viol("unshare_unknown", format!("unshare(paddr={:#x}, vaddr={:#x}, len={}): address was never returned by share", paddr, vaddr, len));
            }
            evlog::log(Ev::Unshare { paddr, vaddr, len, dir, ok: false });
            return;
        };
        let ok = s.vaddr == vaddr && s.len == len && s.dir == dir && s.ap == ap;
        if !ok {
            let d = format!(
                "unshare(paddr={:#x}, vaddr={:#x}, len={}, dir={}, ap={}) does not match share(vaddr={:#x}, len={}, dir={}, ap={})",
                paddr, vaddr, len, dir.name(), ap, s.vaddr, s.len, s.dir.name(), s.ap
            );
            self.viol("unshare_mismatch", d);
        }
        let s = self.shares.remove(&paddr).unwrap();
        if let Some(b) = s.bounce {
            if s.dir != Dir::ToDev && ok {
                // SAFETY: the caller of `unshare` promises `buffer` is valid for writes; lengths match.
                unsafe { std::ptr::copy_nonoverlapping(b as *const u8, caller, len) };
                self.c.bytes_from_dev += len as u64;
            }
            retire_bounce(b, s.len);
        }
        if self.log_shares {
            self.unshare_log.push(ShareRec { paddr, vaddr, len, dir, ap, seq: self.seq });
        }
        crate::alloc_spy::remove_range(s.vaddr, s.len);
        evlog::log(Ev::Unshare { paddr, vaddr, len, dir, ok });
    }

    // ---------------- device side ----------------

    /// Locate `[paddr, paddr+len)`; returns (pointer, writable-by-device, description).
    fn resolve(&mut self, paddr: u64, len: usize) -> Result<(*mut u8, bool, &'static str), String> {
        if let Some((_, r)) = self.regions.range(..=paddr).next_back() {
            let off = paddr - r.paddr;
            if (off as usize) < r.len() {
                if off as usize + len > r.len() {
                    return Err(format!("device access [{:#x},+{}) runs past the end of DMA region {:#x} ({} bytes)", paddr, len, r.paddr, r.len()));
                }
                // SAFETY: in bounds of the live allocation.
                let p = unsafe { r.ptr.add(off as usize) };
                return Ok((p, r.dir != Dir::ToDev, "dma"));
            }
        }
        if let Some((_, s)) = self.shares.range(..=paddr).next_back() {
            let off = paddr - s.paddr;
            if (off as usize) < s.len.max(1) {
                if off as usize + len > s.len {
                    return Err(format!("device access [{:#x},+{}) runs past the end of shared buffer {:#x} ({} bytes)", paddr, len, s.paddr, s.len));
                }
                let base = match s.bounce {
                    Some(b) => b,
                    None => s.caller,
                };
                // SAFETY: in bounds of the bounce buffer / caller buffer.
                let p = unsafe { base.add(off as usize) };
                return Ok((p, s.dir != Dir::ToDev, "share"));
            }
        }
        if self.dead_regions.iter().any(|d| paddr >= d.0 && paddr < d.0 + d.1 as u64) {
            return Err(format!("device access [{:#x},+{}) hits a DMA region that was already released", paddr, len));
        }
        Err(format!("device address [{:#x},+{}) is neither inside a live DMA region nor an active share", paddr, len))
    }

    pub fn dev_read(&mut self, paddr: u64, buf: &mut [u8]) -> Result<(), String> {
        if buf.is_empty() {
            return Ok(());
        }
        let (p, _, _) = self.resolve(paddr, buf.len())?;
        // SAFETY: resolve() bounds-checked the range.
        unsafe { std::ptr::copy_nonoverlapping(p as *const u8, buf.as_mut_ptr(), buf.len()) };
        self.c.dev_reads += 1;
        Ok(())
    }

    pub fn dev_write(&mut self, paddr: u64, data: &[u8]) -> Result<(), String> {
        if data.is_empty() {
            return Ok(());
        }
        let (p, writable, what) = self.resolve(paddr, data.len())?;
        if !writable && !self.allow_illegal_dev_writes {
            return Err(format!("device write [{:#x},+{}) into driver-to-device {} memory", paddr, data.len(), what));
        }
        // SAFETY: resolve() bounds-checked the range.
        unsafe { std::ptr::copy_nonoverlapping(data.as_ptr(), p, data.len()) };
        self.c.dev_writes += 1;
        Ok(())
    }

    pub fn dev_read_u16(&mut self, paddr: u64) -> Result<u16, String> {
        let mut b = [0u8; 2];
        self.dev_read(paddr, &mut b)?;
        Ok(u16::from_le_bytes(b))
    }
    pub fn dev_read_u32(&mut self, paddr: u64) -> Result<u32, String> {
        let mut b = [0u8; 4];
        self.dev_read(paddr, &mut b)?;
        Ok(u32::from_le_bytes(b))
    }
    pub fn dev_read_u64(&mut self, paddr: u64) -> Result<u64, String> {
        let mut b = [0u8; 8];
        self.dev_read(paddr, &mut b)?;
        Ok(u64::from_le_bytes(b))
    }
    pub fn dev_write_u16(&mut self, paddr: u64, v: u16) -> Result<(), String> {
        self.dev_write(paddr, &v.to_le_bytes())
    }
    pub fn dev_write_u32(&mut self, paddr: u64, v: u32) -> Result<(), String> {
        self.dev_write(paddr, &v.to_le_bytes())
    }

    /// Which live DMA region (paddr, len, dir) contains `[paddr, paddr+len)`, if any.
    pub fn region_of(&self, paddr: u64, len: usize) -> Option<(u64, usize, Dir)> {
        let (_, r) = self.regions.range(..=paddr).next_back()?;
        let off = (paddr - r.paddr) as usize;
        if off < r.len() && off + len <= r.len() { Some((r.paddr, r.len(), r.dir)) } else { None }
    }
    pub fn active_share(&self, paddr: u64) -> Option<ShareRec> {
        self.shares.get(&paddr).map(|s| ShareRec { paddr: s.paddr, vaddr: s.vaddr, len: s.len, dir: s.dir, ap: s.ap, seq: s.seq })
    }
    pub fn live_regions(&self) -> usize {
        self.regions.len()
    }
    pub fn active_shares(&self) -> usize {
        self.shares.len()
    }
}

/// The Hal implementation handed to the library.
pub struct LedgerHal;

// SAFETY: dma_alloc returns page-aligned, zeroed, exclusively owned memory that stays valid until
// dma_dealloc; share/unshare follow the documented contract (bounce buffers or aliasing).
unsafe impl Hal for LedgerHal {
    fn dma_alloc(pages: usize, direction: BufferDirection, access_platform: bool) -> (PhysAddr, NonNull<u8>) {
        with(|l| l.dma_alloc(pages, direction.into(), access_platform))
    }
    unsafe fn dma_dealloc(paddr: PhysAddr, vaddr: NonNull<u8>, pages: usize, access_platform: bool) -> i32 {
        with(|l| l.dma_dealloc(paddr, vaddr, pages, access_platform))
    }
    unsafe fn mmio_phys_to_virt(paddr: PhysAddr, size: usize) -> NonNull<u8> {
        with(|l| {
            l.c.phys_to_virt += 1;
            l.p2v_requests.push((paddr, size));
        });
        NonNull::new((paddr.wrapping_add(MMIO_VOFF)) as usize as *mut u8).unwrap()
    }
    unsafe fn share(buffer: NonNull<[u8]>, direction: BufferDirection, access_platform: bool) -> PhysAddr {
        with(|l| l.share(buffer, direction.into(), access_platform))
    }
    unsafe fn unshare(paddr: PhysAddr, buffer: NonNull<[u8]>, direction: BufferDirection, access_platform: bool) {
        with(|l| l.unshare(paddr, buffer, direction.into(), access_platform))
    }
}

/// A second Hal for the multi-billion-operation sweeps (C05 index space, C17 counter wrap): DMA
/// allocation still goes through the ledger, but share/unshare are the identity with O(1)
/// bookkeeping (a counter of outstanding shares), as on a machine without an IOMMU.
pub struct FastHal;

thread_local! {
    pub static FAST_OUTSTANDING: std::cell::Cell<i64> = const { std::cell::Cell::new(0) };
    pub static FAST_SHARES: std::cell::Cell<u64> = const { std::cell::Cell::new(0) };
}

// SAFETY: as LedgerHal for dma_alloc/dma_dealloc; share returns the buffer's own address, which is a
// valid device address in an identity-mapped system.
unsafe impl Hal for FastHal {
    fn dma_alloc(pages: usize, direction: BufferDirection, access_platform: bool) -> (PhysAddr, NonNull<u8>) {
        with(|l| l.dma_alloc(pages, direction.into(), access_platform))
    }
    unsafe fn dma_dealloc(paddr: PhysAddr, vaddr: NonNull<u8>, pages: usize, access_platform: bool) -> i32 {
        with(|l| l.dma_dealloc(paddr, vaddr, pages, access_platform))
    }
    unsafe fn mmio_phys_to_virt(paddr: PhysAddr, _size: usize) -> NonNull<u8> {
        NonNull::new((paddr.wrapping_add(MMIO_VOFF)) as usize as *mut u8).unwrap()
    }
    unsafe fn share(buffer: NonNull<[u8]>, _direction: BufferDirection, _access_platform: bool) -> PhysAddr {
        FAST_OUTSTANDING.with(|c| c.set(c.get() + 1));
        FAST_SHARES.with(|c| c.set(c.get() + 1));
        buffer.as_ptr() as *mut u8 as usize as PhysAddr
    }
    unsafe fn unshare(_paddr: PhysAddr, _buffer: NonNull<[u8]>, _direction: BufferDirection, _access_platform: bool) {
        FAST_OUTSTANDING.with(|c| c.set(c.get() - 1));
    }
}

/// Raw device-side view of one queue's memory for the fast sweeps (pointers obtained once from the
/// ledger's region table, so they carry the allocation's provenance).
#[derive(Clone, Copy)]
pub struct FastQ {
    pub desc: *mut u8,
    pub avail: *mut u8,
    pub used: *mut u8,
    pub size: u16,
}

impl FastQ {
    pub fn new(desc: u64, avail: u64, used: u64, size: u16) -> Option<FastQ> {
        with(|l| {
            let d = l.resolve(desc, 16 * size as usize).ok()?.0;
            let a = l.resolve(avail, 6 + 2 * size as usize).ok()?.0;
            let u = l.resolve(used, 6 + 8 * size as usize).ok()?.0;
            Some(FastQ { desc: d, avail: a, used: u, size })
        })
    }
    #[inline]
    fn r16(p: *mut u8, off: usize) -> u16 {
        // SAFETY: offsets are inside the regions resolved in new(); volatile because the driver also accesses them.
        unsafe { (p.add(off) as *const u16).read_volatile() }
    }
    #[inline]
    fn w16(p: *mut u8, off: usize, v: u16) {
        // SAFETY: as above.
        unsafe { (p.add(off) as *mut u16).write_volatile(v) }
    }
    #[inline]
    fn w32(p: *mut u8, off: usize, v: u32) {
        // SAFETY: as above.
        unsafe { (p.add(off) as *mut u32).write_volatile(v) }
    }
    #[inline]
    pub fn avail_idx(&self) -> u16 {
        Self::r16(self.avail, 2)
    }
    #[inline]
    pub fn avail_flags(&self) -> u16 {
        Self::r16(self.avail, 0)
    }
    #[inline]
    pub fn avail_ring(&self, slot: u16) -> u16 {
        Self::r16(self.avail, 4 + 2 * slot as usize)
    }
    #[inline]
    pub fn used_event(&self) -> u16 {
        Self::r16(self.avail, 4 + 2 * self.size as usize)
    }
    #[inline]
    pub fn set_used_flags(&self, v: u16) {
        Self::w16(self.used, 0, v)
    }
    #[inline]
    pub fn set_avail_event(&self, v: u16) {
        Self::w16(self.used, 4 + 8 * self.size as usize, v)
    }
    #[inline]
    pub fn complete(&self, used_idx: &mut u16, id: u16, len: u32) {
        let slot = (*used_idx & (self.size - 1)) as usize;
        Self::w32(self.used, 4 + 8 * slot, id as u32);
        Self::w32(self.used, 8 + 8 * slot, len);
        *used_idx = used_idx.wrapping_add(1);
        Self::w16(self.used, 2, *used_idx);
    }
}
