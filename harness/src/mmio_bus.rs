//! The register boundary (DESIGN §2.2): every MMIO access the library performs arrives here through
//! safe-mmio's `custom-mmio` backend and is dispatched to a device model by address.  Backing memory
//! is never used as the register file.
use safe_mmio::MmioOps;
use std::cell::RefCell;
use std::rc::Rc;

#[derive(Clone, Copy, Debug, PartialEq, Eq)]
pub struct Access {
    pub addr: u64,
    pub width: u8,
    pub write: bool,
    pub value: u64,
}

pub trait MmioDevice {
    fn read(&mut self, off: u64, width: u8) -> u64;
    fn write(&mut self, off: u64, width: u8, value: u64);
}

struct Region {
    base: u64,
    len: u64,
    dev: Rc<RefCell<dyn MmioDevice>>,
}

#[derive(Default)]
pub struct Bus {
    regions: Vec<Region>,
    pub trace: Vec<Access>,
    pub trace_on: bool,
    /// Accesses that hit no registered window.
    pub unmapped: Vec<Access>,
    pub count: u64,
}

thread_local! {
    static BUS: RefCell<Bus> = RefCell::new(Bus::default());
}

pub fn with<R>(f: impl FnOnce(&mut Bus) -> R) -> R {
    BUS.with(|b| f(&mut b.borrow_mut()))
}
pub fn reset() {
    with(|b| *b = Bus::default());
}
pub fn map(base: u64, len: u64, dev: Rc<RefCell<dyn MmioDevice>>) {
    with(|b| b.regions.push(Region { base, len, dev }));
}
pub fn unmap(base: u64) {
    with(|b| b.regions.retain(|r| r.base != base));
}
pub fn trace(on: bool) {
    with(|b| {
        b.trace_on = on;
        b.trace.clear();
    });
}
pub fn take_trace() -> Vec<Access> {
    with(|b| std::mem::take(&mut b.trace))
}
pub fn take_unmapped() -> Vec<Access> {
    with(|b| std::mem::take(&mut b.unmapped))
}

fn find(addr: u64, width: u8) -> Option<(Rc<RefCell<dyn MmioDevice>>, u64)> {
    with(|b| {
        b.count += 1;
        if std::env::var_os("VCHECK_BUS_DEBUG").is_some() {
            eprintln!("bus: access {:#x}+{} regions {:x?}", addr, width, b.regions.iter().map(|r| (r.base, r.len)).collect::<Vec<_>>());
        }
        b.regions.iter().find(|r| addr >= r.base && addr + width as u64 <= r.base + r.len).map(|r| (r.dev.clone(), addr - r.base))
    })
}

fn bus_read(addr: u64, width: u8) -> u64 {
    let v = match find(addr, width) {
        Some((d, off)) => d.borrow_mut().read(off, width),
        None => {
            with(|b| b.unmapped.push(Access { addr, width, write: false, value: 0 }));
            !0u64 >> (64 - 8 * width as u32)
        }
    };
    with(|b| {
        if b.trace_on {
            b.trace.push(Access { addr, width, write: false, value: v })
        }
    });
    v
}
fn bus_write(addr: u64, width: u8, value: u64) {
    with(|b| {
        if b.trace_on {
            b.trace.push(Access { addr, width, write: true, value })
        }
    });
    match find(addr, width) {
        Some((d, off)) => d.borrow_mut().write(off, width, value),
        None => with(|b| b.unmapped.push(Access { addr, width, write: true, value })),
    }
}

pub struct BusOps;
// SAFETY (of the trait contract): no memory is ever dereferenced; the pointer is only used as an address.
impl MmioOps for BusOps {
    unsafe fn read_u8(src: *const u8) -> u8 {
        bus_read(src as usize as u64, 1) as u8
    }
    unsafe fn read_u16(src: *const u16) -> u16 {
        bus_read(src as usize as u64, 2) as u16
    }
    unsafe fn read_u32(src: *const u32) -> u32 {
        bus_read(src as usize as u64, 4) as u32
    }
    unsafe fn read_u64(src: *const u64) -> u64 {
        bus_read(src as usize as u64, 8)
    }
    unsafe fn write_u8(dst: *mut u8, value: u8) {
        bus_write(dst as usize as u64, 1, value as u64)
    }
    unsafe fn write_u16(dst: *mut u16, value: u16) {
        bus_write(dst as usize as u64, 2, value as u64)
    }
    unsafe fn write_u32(dst: *mut u32, value: u32) {
        bus_write(dst as usize as u64, 4, value as u64)
    }
    unsafe fn write_u64(dst: *mut u64, value: u64) {
        bus_write(dst as usize as u64, 8, value)
    }
}

/// Must be invoked exactly once in the final binary.
#[macro_export]
macro_rules! install_mmio_ops {
    () => {
        safe_mmio::set_mmio_ops!($crate::mmio_bus::BusOps);
    };
}
