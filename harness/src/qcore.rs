//! Shared co-simulation runner for the virtqueue core (C01–C05a/b): the real `VirtQueue` driven by
//! random histories against the reference device, with all oracles evaluated on every step.
//! Each violation is tagged with the property it refutes; a check only alarms on its own tag.

use crate::hooks::{self, DmaAccess};
use crate::json::J;
use crate::mem::{self, Dir, HalMode, LedgerHal, ShareRec};
use crate::rng::{Hash64, Rng};
use crate::vqdev::{Chain, Elem, VqDev};
use crate::xport_model::{ModelState, ModelTransport};
use std::cell::RefCell;
use std::collections::{BTreeMap, VecDeque};
use std::panic::{AssertUnwindSafe, catch_unwind};
use std::rc::Rc;
use virtio_drivers::queue::VirtQueue;
use virtio_drivers::transport::DeviceType;
use virtio_drivers::{Error, Result as VResult};

// ---------------------------------------------------------------------------------------------
// Size-erased queue handle

pub trait DynQ {
    /// # Safety
    /// as `VirtQueue::add`
    unsafe fn add<'a, 'b>(&mut self, ins: &'a [&'b [u8]], outs: &'a mut [&'b mut [u8]]) -> VResult<u16>;
    /// # Safety
    /// as `VirtQueue::pop_used`
    unsafe fn pop_used<'a>(&mut self, token: u16, ins: &'a [&'a [u8]], outs: &'a mut [&'a mut [u8]]) -> VResult<u32>;
    fn can_pop(&self) -> bool;
    fn peek_used(&self) -> Option<u16>;
    fn available_desc(&self) -> usize;
    fn should_notify(&self) -> bool;
    fn set_dev_notify(&mut self, enable: bool);
    fn add_notify_wait_pop<'a>(&mut self, ins: &'a [&'a [u8]], outs: &'a mut [&'a mut [u8]], t: &mut ModelTransport) -> VResult<u32>;
}

impl<const N: usize> DynQ for VirtQueue<LedgerHal, N> {
    unsafe fn add<'a, 'b>(&mut self, ins: &'a [&'b [u8]], outs: &'a mut [&'b mut [u8]]) -> VResult<u16> {
        unsafe { VirtQueue::add(self, ins, outs) }
    }
    unsafe fn pop_used<'a>(&mut self, token: u16, ins: &'a [&'a [u8]], outs: &'a mut [&'a mut [u8]]) -> VResult<u32> {
        unsafe { VirtQueue::pop_used(self, token, ins, outs) }
    }
    fn can_pop(&self) -> bool {
        VirtQueue::can_pop(self)
    }
    fn peek_used(&self) -> Option<u16> {
        VirtQueue::peek_used(self)
    }
    fn available_desc(&self) -> usize {
        VirtQueue::available_desc(self)
    }
    fn should_notify(&self) -> bool {
        VirtQueue::should_notify(self)
    }
    fn set_dev_notify(&mut self, enable: bool) {
        VirtQueue::set_dev_notify(self, enable)
    }
    fn add_notify_wait_pop<'a>(&mut self, ins: &'a [&'a [u8]], outs: &'a mut [&'a mut [u8]], t: &mut ModelTransport) -> VResult<u32> {
        VirtQueue::add_notify_wait_pop(self, ins, outs, t)
    }
}

pub const SIZES: [usize; 16] = [1, 2, 4, 8, 16, 32, 64, 128, 256, 512, 1024, 2048, 4096, 8192, 16384, 32768];

pub fn make_queue(size: usize, t: &mut ModelTransport, idx: u16, indirect: bool, event_idx: bool, ap: bool) -> VResult<Box<dyn DynQ>> {
    macro_rules! mk {
        ($($n:literal),*) => {
            match size {
                $($n => Ok(Box::new(VirtQueue::<LedgerHal, $n>::new(t, idx, indirect, event_idx, ap)?) as Box<dyn DynQ>),)*
                _ => panic!("unsupported queue size {}", size),
            }
        };
    }
    mk!(1, 2, 4, 8, 16, 32, 64, 128, 256, 512, 1024, 2048, 4096, 8192, 16384, 32768)
}

// ---------------------------------------------------------------------------------------------

#[derive(Clone, Copy, Debug, PartialEq, Eq)]
pub struct QCfg {
    pub size: usize,
    pub indirect: bool,
    pub event_idx: bool,
    pub ap: bool,
    pub legacy: bool,
}
impl QCfg {
    pub fn describe(&self) -> String {
        format!("N={} indirect={} event_idx={} access_platform={} legacy={}", self.size, self.indirect, self.event_idx, self.ap, self.legacy)
    }
    pub fn to_json(&self) -> J {
        J::obj()
            .with("size", J::us(self.size))
            .with("indirect", J::Bool(self.indirect))
            .with("event_idx", J::Bool(self.event_idx))
            .with("access_platform", J::Bool(self.ap))
            .with("legacy", J::Bool(self.legacy))
    }
    pub fn hash(&self, h: &mut Hash64) {
        h.u64(self.size as u64 | (self.indirect as u64) << 32 | (self.event_idx as u64) << 33 | (self.ap as u64) << 34 | (self.legacy as u64) << 35);
    }
}

#[derive(Clone, Debug)]
pub struct Viol {
    pub prop: &'static str,
    pub rule: &'static str,
    pub detail: String,
    /// false: the history can continue (e.g. a wrong boolean answer); true: state may be inconsistent.
    pub fatal: bool,
}

#[derive(Clone, Debug)]
struct ExpBuf {
    vaddr: usize,
    len: usize,
    write: bool,
}

#[derive(Clone, Copy, Debug, PartialEq, Eq)]
enum EState {
    Unfetched,
    Fetched,
    Completed,
}

struct Entry {
    id: u64,
    token: u16,
    avail_pos: u16,
    elems: Vec<Elem>,
    indirect: bool,
    table: Option<ShareRec>,
    shares: Vec<ShareRec>,
    descs: Vec<u16>,
    state: EState,
    ins: Vec<Vec<u8>>,
    outs: Vec<Vec<u8>>,
    ins_copy_hash: u64,
    canary: u8,
    wlen: usize,
    pattern: u64,
}

struct InAdd {
    bufs: Vec<ExpBuf>,
    published: bool,
    head: u16,
}

/// Knobs of one case.
#[derive(Clone, Debug)]
pub struct Knobs {
    /// Run the full C02 validation in the store hooks.
    pub hook_validate: bool,
    /// Let the device complete chains inside load hooks.
    pub hook_completions: bool,
    pub max_bufs: usize,
    pub max_len: usize,
    /// Percentage of polls that use a wrong token.
    pub wrong_token_pct: u64,
    /// Device sometimes records an arbitrary length.
    pub arbitrary_len: bool,
    pub steps: usize,
    /// Bias towards keeping the queue full (many outstanding).
    pub fill_bias: u64,
    /// Keep going (up to 40x steps) until this many submissions were accepted (index-wrap runs).
    pub min_adds: u64,
}

pub struct Core {
    pub cfg: QCfg,
    pub dev: VqDev,
    entries: BTreeMap<u16, Entry>,
    order: VecDeque<u16>,
    fetched: Vec<u16>,
    fifo: VecDeque<(u16, u32)>,
    desc_owner: Vec<Option<u16>>,
    desc_used_before: Vec<bool>,
    free: usize,
    last_avail_seen: u16,
    avail_model: u16,
    pub avail_model_total: u64,
    consumed: u16,
    last_check_idx: u16,
    in_add: Option<InAdd>,
    fifo_len_at_load: Option<usize>,
    pub viol: Vec<Viol>,
    hook_rng: Rng,
    knobs: Knobs,
    next_id: u64,
    // observation counters
    pub c: BTreeMap<&'static str, u64>,
    // non-triviality facts
    pub saw_multi: bool,
    pub saw_ooo: bool,
    pub saw_reuse: bool,
    flag_mode_requested: Option<bool>,
}

impl Core {
    fn inc(&mut self, k: &'static str) {
        *self.c.entry(k).or_insert(0) += 1;
    }
    fn add_c(&mut self, k: &'static str, v: u64) {
        *self.c.entry(k).or_insert(0) += v;
    }
    fn v(&mut self, prop: &'static str, rule: &'static str, detail: String) {
        if self.viol.len() < 8 {
            self.viol.push(Viol { prop, rule, detail, fatal: true });
        }
    }
    /// Non-fatal: recorded once per rule, the history goes on.
    fn v_soft(&mut self, prop: &'static str, rule: &'static str, detail: String) {
        if self.viol.len() < 8 && !self.viol.iter().any(|v| v.rule == rule) {
            self.viol.push(Viol { prop, rule, detail, fatal: false });
        }
    }
    fn mask(&self) -> u16 {
        (self.cfg.size - 1) as u16
    }

    /// Resolve the expectation of the in-progress add from the ledger's share log.
    fn resolve_in_add(&self) -> Option<Vec<Elem>> {
        let ia = self.in_add.as_ref()?;
        mem::with(|l| {
            let mut out = vec![];
            for b in &ia.bufs {
                let rec = l.share_log.iter().find(|r| r.vaddr == b.vaddr && r.len == b.len)?;
                out.push(Elem { addr: rec.paddr, len: b.len as u32, write: b.write });
            }
            Some(out)
        })
    }

    fn check_chain_against(&mut self, token: u16, expect: &[Elem], expect_table: Option<u64>, when: &'static str, prop: &'static str) {
        match self.dev.walk(token) {
            Err(e) => self.v(prop, "chain_malformed", format!("{}: chain at head {}: {}", when, token, e)),
            Ok(ch) => {
                if ch.elems != expect {
                    let d = format!("{}: chain at head {} is {:?} but the caller's buffers are {:?}", when, token, ch.elems, expect);
                    self.v(prop, "chain_mismatch", d);
                } else if let (Some(t), Some((addr, _))) = (expect_table, ch.table) {
                    if t != addr {
                        self.v(prop, "indirect_table_address", format!("{}: indirect table at {:#x}, shared at {:#x}", when, addr, t));
                    }
                }
            }
        }
    }

    /// C02: everything the device could see right now must be complete.
    fn validate_visible(&mut self, kind: DmaAccess) {
        self.inc("hook_observations");
        let a = match self.dev.avail_idx() {
            Ok(a) => a,
            Err(e) => {
                self.v("C02", "avail_unreadable", e);
                return;
            }
        };
        let step = a.wrapping_sub(self.last_avail_seen);
        if step > 1 {
            self.v("C02", "avail_idx_jump", format!("available index went from {} to {} (after {:?})", self.last_avail_seen, a, kind));
        } else if step == 1 {
            let expected_new = self.avail_model.wrapping_add(1);
            match self.in_add.as_ref().map(|i| i.published) {
                Some(false) if a == expected_new => {
                    let head = self.dev.avail_ring(self.avail_model & self.mask()).unwrap_or(0xffff);
                    if let Some(ia) = self.in_add.as_mut() {
                        ia.published = true;
                        ia.head = head;
                    }
                    self.inc("publications_seen_in_hook");
                    if kind != DmaAccess::StoreAvailIdx {
                        self.v("C02", "index_changed_by_other_store", format!("available index advanced at a {:?} event", kind));
                    }
                }
                _ => self.v("C02", "avail_idx_unexpected_advance", format!("available index advanced to {} outside a submission / twice in one submission (after {:?})", a, kind)),
            }
        } else if let Some(ia) = self.in_add.as_ref() {
            if ia.published {
                self.v("C02", "store_after_publication", format!("{:?} store after the available index of this submission was published", kind));
            }
        }
        self.last_avail_seen = a;

        // committed, unfetched entries: ring slot must still hold the token
        let unf: Vec<(u16, u16)> = self.order.iter().map(|t| (*t, self.entries[t].avail_pos)).collect();
        for (tok, pos) in unf {
            match self.dev.avail_ring(pos & self.mask()) {
                Ok(v) if v == tok => {}
                Ok(v) => self.v("C02", "ring_slot_changed", format!("ring slot for available entry {} holds {} (expected head {})", pos, v, tok)),
                Err(e) => self.v("C02", "avail_unreadable", e),
            }
        }
        // every published entry the device has not completed must be exactly the finished chain
        let live: Vec<u16> = self.entries.iter().filter(|(_, e)| e.state != EState::Completed).map(|(t, _)| *t).collect();
        for tok in live {
            let (ex, tb) = {
                let e = &self.entries[&tok];
                (e.elems.clone(), e.table.as_ref().map(|t| t.paddr))
            };
            self.check_chain_against(tok, &ex, tb, "at a store event", "C02");
            self.inc("hook_chain_validations");
        }
        // the entry published by the in-progress submission
        if let Some((true, head)) = self.in_add.as_ref().map(|i| (i.published, i.head)) {
            match self.resolve_in_add() {
                None => self.v("C02", "published_before_shared", "available index published before all buffers were shared".into()),
                Some(ex) => {
                    self.check_chain_against(head, &ex, None, "at publication", "C02");
                    self.inc("hook_chain_validations");
                }
            }
        }
    }

    fn on_dma(&mut self, kind: DmaAccess, _q: u16) {
        if hooks::is_store(kind) {
            self.inc("hook_stores");
            if self.knobs.hook_validate {
                self.validate_visible(kind);
            }
        } else {
            self.inc("hook_loads");
            if self.knobs.hook_completions && matches!(kind, DmaAccess::LoadUsedIdx | DmaAccess::LoadUsedElem) && !self.fetched.is_empty() && self.hook_rng.chance(1, 4) {
                let i = self.hook_rng.below(self.fetched.len() as u64) as usize;
                let wl = self.hook_rng.next();
                self.dev_complete_one(i, wl, false);
                self.inc("completions_inside_load_hook");
            }
            if kind == DmaAccess::LoadUsedIdx {
                self.fifo_len_at_load = Some(self.fifo.len());
            }
        }
    }

    // ---------------- device actions ----------------

    fn dev_fetch_one(&mut self) -> bool {
        let Some(tok) = self.order.pop_front() else { return false };
        match self.dev.fetch_head() {
            Ok(Some(h)) if h == tok => {}
            Ok(other) => self.v("C01", "ring_slot_wrong", format!("device fetched {:?} from the available ring, expected head {}", other, tok)),
            Err(e) => self.v("C01", "avail_unreadable", e),
        }
        let (ex, tb) = {
            let e = self.entries.get_mut(&tok).unwrap();
            e.state = EState::Fetched;
            (e.elems.clone(), e.table.as_ref().map(|t| t.paddr))
        };
        // late re-validation (catches corruption by recycling of other chains)
        self.check_chain_against(tok, &ex, tb, "when the device fetched it", "C01");
        self.inc("chains_fetched");
        self.fetched.push(tok);
        true
    }

    fn pattern_bytes(seed: u64, n: usize) -> Vec<u8> {
        let mut r = Rng::new(seed);
        let mut v = vec![0u8; n];
        r.fill(&mut v);
        v
    }

    /// Complete `fetched[i]`.  `publish_later` = write the element only (batching).
    fn dev_complete_one(&mut self, i: usize, rnd: u64, publish_later: bool) -> Option<u16> {
        if i >= self.fetched.len() {
            return None;
        }
        if i != 0 {
            self.saw_ooo = true;
        }
        let tok = self.fetched.remove(i);
        let (chain, wcap) = {
            let e = &self.entries[&tok];
            let ch = Chain { head: tok, indirect: e.indirect, table: None, elems: e.elems.clone(), descs: e.descs.clone() };
            let w = ch.writable_len();
            (ch, w)
        };
        let wlen = match rnd % 5 {
            0 => 0,
            1 | 2 => wcap,
            _ => ((rnd >> 8) as usize) % (wcap + 1),
        };
        let pattern = rnd ^ 0x5bd1e995;
        let data = Self::pattern_bytes(pattern, wlen);
        if let Err(e) = self.dev.write_payload(&chain, &data) {
            self.v("C04", "device_cannot_write_buffer", e);
        }
        let rec_len = if self.knobs.arbitrary_len && (rnd >> 40) % 16 == 0 { (rnd >> 20) as u32 } else { wlen as u32 };
        {
            let e = self.entries.get_mut(&tok).unwrap();
            e.state = EState::Completed;
            e.wlen = wlen;
            e.pattern = pattern;
        }
        let slot = self.dev.used_idx & self.mask();
        if let Err(e) = self.dev.write_used_elem(slot, tok as u32, rec_len) {
            self.v("C06", "used_ring_unwritable", e);
        }
        self.dev.used_idx = self.dev.used_idx.wrapping_add(1);
        if !publish_later {
            if let Err(e) = self.dev.store_used_idx(self.dev.used_idx) {
                self.v("C06", "used_ring_unwritable", e);
            }
        }
        self.fifo.push_back((tok, rec_len));
        self.inc("completions");
        Some(tok)
    }
}

// ---------------------------------------------------------------------------------------------

pub struct QSim {
    pub core: Rc<RefCell<Core>>,
    pub q: Option<Box<dyn DynQ>>,
    pub st: Rc<RefCell<ModelState>>,
    pub transport: Option<ModelTransport>,
    pub cfg: QCfg,
    pub oplog: Vec<String>,
    pub keep_oplog: bool,
    pub ophash: Hash64,
}

pub fn default_knobs() -> Knobs {
    Knobs { hook_validate: false, hook_completions: true, max_bufs: 6, max_len: 96, wrong_token_pct: 15, arbitrary_len: true, steps: 200, fill_bias: 50, min_adds: 0 }
}

impl QSim {
    pub fn new(cfg: QCfg, knobs: Knobs, hook_seed: u64) -> Result<QSim, String> {
        mem::reset(HalMode::Bounce);
        hooks::clear();
        let st = ModelState::new(DeviceType::Block, 0);
        st.borrow_mut().legacy = cfg.legacy;
        let mut t = ModelTransport::new(&st);
        let q = catch_unwind(AssertUnwindSafe(|| make_queue(cfg.size, &mut t, 0, cfg.indirect, cfg.event_idx, cfg.ap)))
            .map_err(|_| "panic in VirtQueue::new".to_string())?
            .map_err(|e| format!("VirtQueue::new failed: {:?}", e))?;
        let reg = *st.borrow().queues.get(&0).ok_or("queue_set was not called")?;
        // the three areas handed to the device must be device addresses of live DMA memory
        for (what, a, len) in [("descriptor table", reg.desc, 16 * cfg.size), ("driver area", reg.driver, 6 + 2 * cfg.size), ("device area", reg.device, 6 + 8 * cfg.size)] {
            if mem::with(|l| l.region_of(a, len)).is_none() {
                return Err(format!("AREA: {} registered at {:#x} (+{}) is not inside any live DMA allocation", what, a, len));
            }
        }
        let dev = VqDev::new(0, reg, cfg.indirect, cfg.event_idx);
        let core = Rc::new(RefCell::new(Core {
            cfg,
            dev,
            entries: BTreeMap::new(),
            order: VecDeque::new(),
            fetched: vec![],
            fifo: VecDeque::new(),
            desc_owner: vec![None; cfg.size],
            desc_used_before: vec![false; cfg.size],
            free: cfg.size,
            last_avail_seen: 0,
            avail_model: 0,
            avail_model_total: 0,
            consumed: 0,
            last_check_idx: 0,
            in_add: None,
            fifo_len_at_load: None,
            viol: vec![],
            hook_rng: Rng::new(hook_seed),
            knobs,
            next_id: 0,
            c: BTreeMap::new(),
            saw_multi: false,
            saw_ooo: false,
            saw_reuse: false,
            flag_mode_requested: None,
        }));
        let c2 = core.clone();
        hooks::set_dma(move |k, q| c2.borrow_mut().on_dma(k, q));
        mem::with(|l| {
            l.take_share_log();
            l.take_unshare_log();
            l.expect_ap = Some(cfg.ap);
        });
        Ok(QSim { core, q: Some(q), st, transport: Some(t), cfg, oplog: vec![], keep_oplog: false, ophash: Hash64::new() })
    }

    fn log(&mut self, s: impl FnOnce() -> String) {
        if self.keep_oplog {
            let s = s();
            self.oplog.push(s);
        }
    }

    fn ledger_viols(&mut self, prop_default: &'static str) {
        let vs = mem::with(|l| l.take_violations());
        let mut c = self.core.borrow_mut();
        for v in vs {
            let prop = match v.rule {
                "hal_access_platform_mismatch" => "C08",
                "dma_dealloc_twice" | "dma_dealloc_unknown" | "dma_dealloc_mismatch" => "C06",
                _ => prop_default,
            };
            c.v(prop, v.rule, v.detail);
        }
    }

    pub fn failed(&self) -> bool {
        self.core.borrow().viol.iter().any(|v| v.fatal)
    }

    // ---------------- driver operations ----------------

    /// Submit `n_in` readable and `n_out` writable buffers with the given lengths.
    pub fn op_add(&mut self, lens_in: &[usize], lens_out: &[usize], rng: &mut Rng) -> Option<u16> {
        let n = lens_in.len() + lens_out.len();
        self.ophash.u64(0xadd0 | (lens_in.len() as u64) << 16 | (lens_out.len() as u64) << 32);
        for l in lens_in.iter().chain(lens_out.iter()) {
            self.ophash.u64(*l as u64);
        }
        self.log(|| format!("add in={:?} out={:?}", lens_in, lens_out));
        let canary = 0x40 | (rng.next() as u8 & 0x3f);
        let mut ins: Vec<Vec<u8>> = lens_in.iter().map(|l| { let mut v = vec![0u8; *l]; rng.fill(&mut v); v }).collect();
        let mut outs: Vec<Vec<u8>> = lens_out.iter().map(|l| vec![canary; *l]).collect();
        let mut ih = Hash64::new();
        for b in &ins {
            ih.bytes(b);
        }
        let bufs: Vec<ExpBuf> = ins
            .iter()
            .map(|b| ExpBuf { vaddr: b.as_ptr() as usize, len: b.len(), write: false })
            .chain(outs.iter().map(|b| ExpBuf { vaddr: b.as_ptr() as usize, len: b.len(), write: true }))
            .collect();
        // model prediction
        let (accept, pre_avail, free) = {
            let c = self.core.borrow();
            let need = if self.cfg.indirect && n > 1 { 1 } else { n };
            let accept = n > 0 && n <= self.cfg.size && c.free >= need.max(1);
            (accept, c.avail_model, c.free)
        };
        mem::with(|l| {
            l.take_share_log();
        });
        let stores0 = hooks::store_calls();
        self.core.borrow_mut().in_add = Some(InAdd { bufs: bufs.clone(), published: false, head: 0 });
        let res = {
            let q = self.q.as_mut().unwrap();
            let in_refs: Vec<&[u8]> = ins.iter().map(|v| v.as_slice()).collect();
            let mut out_refs: Vec<&mut [u8]> = outs.iter_mut().map(|v| v.as_mut_slice()).collect();
            // SAFETY: the buffers are owned by the Entry created below and not touched until popped.
            catch_unwind(AssertUnwindSafe(|| unsafe { q.add(&in_refs, &mut out_refs) }))
        };
        let stores = hooks::store_calls() - stores0;
        let share_log = mem::with(|l| l.take_share_log());
        self.ledger_viols("C04");
        let mut c = self.core.borrow_mut();
        let in_add = c.in_add.take().unwrap();
        c.inc("adds_attempted");
        let res = match res {
            Err(_) => {
                c.v("C03", "panic_in_add", format!("add({} in, {} out) panicked (free descriptors {})", lens_in.len(), lens_out.len(), free));
                return None;
            }
            Ok(r) => r,
        };
        let avail_now = c.dev.avail_idx().unwrap_or(0xffff);
        match res {
            Err(e) => {
                c.inc("adds_refused");
                if accept {
                    c.v("C03", "add_refused_with_capacity", format!("add of {} buffers refused ({:?}) although {} descriptors are free (queue {})", n, e, free, self.cfg.describe()));
                }
                if !share_log.is_empty() {
                    c.v("C04", "share_on_refused_add", format!("refused add shared {} buffers", share_log.len()));
                }
                if stores != 0 || avail_now != pre_avail {
                    c.v("C03", "refused_add_side_effect", format!("refused add performed {} device-visible stores, avail idx {} -> {}", stores, pre_avail, avail_now));
                }
                let expect_err = if n == 0 { Error::InvalidParam } else { Error::QueueFull };
                if e != expect_err {
                    c.inc("refusal_other_error");
                }
                None
            }
            Ok(tok) => {
                c.inc("adds_ok");
                if !accept {
                    c.v("C03", "add_accepted_without_capacity", format!("add of {} buffers accepted with only {} free descriptors (queue {})", n, free, self.cfg.describe()));
                    // keep validating: the chain it published is still subject to C01/C04
                }
                // ---- C01: index and ring slot
                if avail_now != pre_avail.wrapping_add(1) {
                    c.v("C01", "avail_idx_step", format!("available index went from {} to {} on one submission", pre_avail, avail_now));
                }
                match c.dev.avail_ring(pre_avail & c.mask()) {
                    Ok(v) if v == tok => {}
                    Ok(v) => {
                        let m = c.mask();
                        c.v("C01", "ring_slot_wrong", format!("ring slot {} holds {} but add returned token {}", pre_avail & m, v, tok))
                    }
                    Err(e) => c.v("C01", "avail_unreadable", e),
                }
                // ---- C04: share discipline
                let mut elems = vec![];
                let mut used = vec![false; share_log.len()];
                let mut by_key: std::collections::HashMap<(usize, usize), Vec<usize>> = std::collections::HashMap::with_capacity(share_log.len());
                for (i, r) in share_log.iter().enumerate() {
                    by_key.entry((r.vaddr, r.len)).or_default().push(i);
                }
                let empty: Vec<usize> = vec![];
                for b in &bufs {
                    let m: &Vec<usize> = by_key.get(&(b.vaddr, b.len)).unwrap_or(&empty);
                    if m.len() != 1 {
                        c.v("C04", "share_count", format!("caller buffer (len {}, {}) was shared {} times by one submission", b.len, if b.write { "writable" } else { "readable" }, m.len()));
                        return None;
                    }
                    let r = &share_log[m[0]];
                    used[m[0]] = true;
                    let want = if b.write { Dir::FromDev } else { Dir::ToDev };
                    if r.dir != want {
                        c.v("C04", "share_direction", format!("{} buffer shared with direction {}", if b.write { "writable" } else { "readable" }, r.dir.name()));
                    }
                    elems.push(Elem { addr: r.paddr, len: b.len as u32, write: b.write });
                }
                let extra: Vec<&ShareRec> = share_log.iter().enumerate().filter(|(i, _)| !used[*i]).map(|(_, r)| r).collect();
                let mut table = None;
                if extra.len() > 1 {
                    c.v("C04", "share_extra", format!("{} shares beyond the caller's {} buffers", extra.len(), n));
                } else if let Some(r) = extra.first() {
                    if r.dir != Dir::ToDev || r.len != 16 * n {
                        c.v("C04", "share_table", format!("indirect table shared as len {} dir {} for {} buffers", r.len, r.dir.name(), n));
                    }
                    table = Some((*r).clone());
                }
                // ---- C01: the chain itself
                let chain = match c.dev.walk(tok) {
                    Err(e) => {
                        c.v("C01", "chain_malformed", format!("after add returned token {}: {} (queue {})", tok, e, self.cfg.describe()));
                        return None;
                    }
                    Ok(ch) => ch,
                };
                if chain.elems != elems {
                    c.v("C01", "chain_mismatch", format!("chain at head {} is {:?} but the caller's buffers (as shared) are {:?}", tok, chain.elems, elems));
                    return None;
                }
                match (&chain.table, &table) {
                    (Some((addr, len)), Some(t)) => {
                        if *addr != t.paddr || *len as usize != t.len {
                            c.v("C01", "indirect_table_address", format!("indirect descriptor points to {:#x}+{} but the table was shared at {:#x}+{}", addr, len, t.paddr, t.len));
                        }
                        c.inc("indirect_chains");
                    }
                    (Some((addr, _)), None) => c.v("C04", "table_not_shared", format!("indirect table at {:#x} was never shared", addr)),
                    (None, Some(_)) => c.v("C04", "share_extra", "a table-like buffer was shared but the chain is direct".into()),
                    (None, None) => {}
                }
                if in_add.published && in_add.head != tok && c.knobs.hook_validate {
                    c.v("C02", "published_head_differs", format!("head published in ring was {} but add returned {}", in_add.head, tok));
                }
                for d in &chain.descs {
                    let di = *d as usize;
                    if let Some(o) = c.desc_owner[di] {
                        c.v("C01", "descriptor_shared_by_two_chains", format!("descriptor {} belongs to outstanding chain {} and to new chain {}", d, o, tok));
                        return None;
                    }
                    if c.desc_used_before[di] {
                        c.saw_reuse = true;
                    }
                    c.desc_owner[di] = Some(tok);
                    c.desc_used_before[di] = true;
                }
                if c.entries.contains_key(&tok) {
                    c.v("C01", "token_reused_while_outstanding", format!("token {} returned while a chain with that token is outstanding", tok));
                    return None;
                }
                if n > 1 {
                    c.saw_multi = true;
                }
                c.free = c.free.saturating_sub(chain.descs.len());
                c.add_c("descriptors_validated", chain.elems.len() as u64);
                c.inc("chains_validated");
                let id = c.next_id;
                c.next_id += 1;
                let mut shares: Vec<ShareRec> = share_log.clone();
                shares.sort_by_key(|r| r.paddr);
                let e = Entry {
                    id,
                    token: tok,
                    avail_pos: pre_avail,
                    elems,
                    indirect: chain.indirect,
                    table,
                    shares,
                    descs: chain.descs.clone(),
                    state: EState::Unfetched,
                    ins: std::mem::take(&mut ins),
                    outs: std::mem::take(&mut outs),
                    ins_copy_hash: ih.finish(),
                    canary,
                    wlen: 0,
                    pattern: 0,
                };
                c.entries.insert(tok, e);
                c.order.push_back(tok);
                c.avail_model = c.avail_model.wrapping_add(1);
                c.avail_model_total += 1;
                if c.avail_model == 0 {
                    c.inc("avail_index_wraps");
                }
                Some(tok)
            }
        }
    }

    pub fn dev_fetch_all(&mut self) {
        let mut c = self.core.borrow_mut();
        while c.dev_fetch_one() {}
    }
    pub fn dev_fetch_some(&mut self, k: usize) {
        let mut c = self.core.borrow_mut();
        for _ in 0..k {
            if !c.dev_fetch_one() {
                break;
            }
        }
    }
    /// Complete one fetched chain chosen by `pick` (index modulo the number fetched).
    pub fn dev_complete(&mut self, pick: u64, rnd: u64) -> bool {
        self.ophash.u64(0xc0 | pick << 8);
        let mut c = self.core.borrow_mut();
        if c.fetched.is_empty() {
            return false;
        }
        let i = (pick % c.fetched.len() as u64) as usize;
        let t = c.dev_complete_one(i, rnd, false);
        drop(c);
        self.log(|| format!("dev_complete token={:?}", t));
        true
    }
    /// Complete k chains and publish the index once.
    pub fn dev_complete_batch(&mut self, k: usize, rng: &mut Rng) -> usize {
        self.ophash.u64(0xcb | (k as u64) << 8);
        let mut c = self.core.borrow_mut();
        let mut done = 0;
        for _ in 0..k {
            if c.fetched.is_empty() {
                break;
            }
            let i = rng.below(c.fetched.len() as u64) as usize;
            c.dev_complete_one(i, rng.next(), true);
            done += 1;
        }
        if done > 0 {
            let idx = c.dev.used_idx;
            let _ = c.dev.store_used_idx(idx);
            c.inc("batched_publications");
        }
        drop(c);
        self.log(|| format!("dev_complete_batch {}", done));
        done
    }

    pub fn outstanding(&self) -> usize {
        self.core.borrow().entries.len()
    }
    pub fn n_fetched(&self) -> usize {
        self.core.borrow().fetched.len()
    }
    pub fn n_unfetched(&self) -> usize {
        self.core.borrow().order.len()
    }
    pub fn n_completed(&self) -> usize {
        self.core.borrow().fifo.len()
    }
    pub fn free_model(&self) -> usize {
        self.core.borrow().free
    }

    /// Snapshot of device-visible driver-owned memory (descriptor table + avail ring) for "no change" checks.
    fn driver_area_hash(&self) -> u64 {
        if self.cfg.size > 256 {
            return 0;
        }
        let c = self.core.borrow();
        let mut h = Hash64::new();
        let mut b = vec![0u8; 16 * self.cfg.size];
        let _ = mem::with(|l| l.dev_read(c.dev.desc, &mut b));
        h.bytes(&b);
        let mut a = vec![0u8; 6 + 2 * self.cfg.size];
        let _ = mem::with(|l| l.dev_read(c.dev.avail, &mut a));
        h.bytes(&a);
        h.finish()
    }

    /// Poll for a completion.  kind 0 = the right token (head of the used ring, or any outstanding one
    /// if nothing is ready), 1 = another outstanding token, 2 = a token that is not outstanding,
    /// 3 = a token >= queue size.
    pub fn op_pop(&mut self, kind: u64, rng: &mut Rng) {
        self.ophash.u64(0x909 | kind << 12);
        let (token, have_entry) = {
            let c = self.core.borrow();
            let head = c.fifo.front().map(|x| x.0);
            match kind {
                0 => match head {
                    Some(h) => (h, true),
                    None => match c.entries.keys().next() {
                        Some(t) => (*t, true),
                        None => (0, false),
                    },
                },
                1 => {
                    let others: Vec<u16> = c.entries.keys().copied().filter(|t| Some(*t) != head).collect();
                    if others.is_empty() {
                        match head {
                            Some(h) => (h, true),
                            None => (0, false),
                        }
                    } else {
                        (others[rng.below(others.len() as u64) as usize], true)
                    }
                }
                2 => {
                    let free: Vec<u16> = (0..self.cfg.size as u16).filter(|t| !c.entries.contains_key(t)).take(64).collect();
                    if free.is_empty() { (self.cfg.size as u16, false) } else { (free[rng.below(free.len() as u64) as usize], false) }
                }
                _ => ((self.cfg.size as u64 + rng.below(65536 - self.cfg.size as u64)) as u16, false),
            }
        };
        self.log(|| format!("pop token={} kind={}", token, kind));
        // C04 data timing: device bytes must not be visible before the completion is consumed
        let pre_hash = self.driver_area_hash();
        {
            let mut c = self.core.borrow_mut();
            if have_entry {
                let e = &c.entries[&token];
                if e.state == EState::Completed && e.outs.iter().any(|b| b.iter().any(|x| *x != e.canary)) {
                    c.v("C04", "device_bytes_visible_before_pop", format!("writable buffer of token {} changed before its completion was consumed", token));
                }
            }
            c.fifo_len_at_load = None;
        }
        mem::with(|l| {
            l.take_unshare_log();
            l.take_share_log();
        });
        let stores0 = hooks::store_calls();
        // take the entry's buffers out while the driver runs (the hooks may borrow the core)
        let (ins, mut outs) = if have_entry {
            let mut c = self.core.borrow_mut();
            let e = c.entries.get_mut(&token).unwrap();
            (std::mem::take(&mut e.ins), std::mem::take(&mut e.outs))
        } else {
            (vec![], vec![])
        };
        let res = {
            let q = self.q.as_mut().unwrap();
            let (ins_r, outs_r) = (&ins, &mut outs);
            catch_unwind(AssertUnwindSafe(move || {
                let in_refs: Vec<&[u8]> = ins_r.iter().map(|v| v.as_slice()).collect();
                let mut out_refs: Vec<&mut [u8]> = outs_r.iter_mut().map(|v| v.as_mut_slice()).collect();
                // SAFETY: same buffers as passed to add for this token (or none for a token that is not
                // outstanding, for which the documented result is an error before any buffer is touched).
                unsafe { q.pop_used(token, &in_refs, &mut out_refs) }
            }))
        };
        let stores = hooks::store_calls() - stores0;
        let unshares = mem::with(|l| l.take_unshare_log());
        let late_shares = mem::with(|l| l.take_share_log());
        self.ledger_viols("C04");
        let post_hash = self.driver_area_hash();
        let mut c = self.core.borrow_mut();
        c.inc("pops_attempted");
        if !late_shares.is_empty() {
            c.v("C04", "share_in_pop", "pop_used shared a buffer".into());
        }
        let flen = c.fifo_len_at_load.unwrap_or(c.fifo.len());
        if c.fifo_len_at_load.is_none() {
            c.inc("pop_without_index_load");
        }
        let expect: Result<u32, Error> = if flen == 0 {
            Err(Error::NotReady)
        } else {
            let (id, len) = *c.fifo.front().unwrap();
            if id != token { Err(Error::WrongToken) } else { Ok(len) }
        };
        let res = match res {
            Err(_) => {
                c.v("C03", "panic_in_pop", format!("pop_used(token {}) panicked; model expected {:?}", token, expect));
                return;
            }
            Ok(r) => r,
        };
        match (&res, &expect) {
            (Err(a), Err(b)) if a == b => {
                if *b == Error::NotReady {
                    c.inc("pops_not_ready");
                } else {
                    c.inc("pops_wrong_token");
                }
                if !unshares.is_empty() || stores != 0 || pre_hash != post_hash {
                    c.v("C03", "failed_poll_side_effect", format!("pop_used(token {}) = {:?} performed {} unshares, {} stores, driver area changed: {}", token, a, unshares.len(), stores, pre_hash != post_hash));
                }
                if have_entry {
                    let e = c.entries.get_mut(&token).unwrap();
                    e.ins = ins;
                    e.outs = outs;
                }
            }
            (Ok(a), Ok(b)) => {
                c.inc("pops_ok");
                if a != b {
                    c.v("C03", "wrong_length_reported", format!("pop_used(token {}) returned {} but the device recorded {}", token, a, b));
                }
                c.fifo.pop_front();
                let e = c.entries.remove(&token).unwrap();
                // C04: unshare set == share set
                let mut us: Vec<(u64, usize, usize, Dir)> = unshares.iter().map(|r| (r.paddr, r.vaddr, r.len, r.dir)).collect();
                us.sort();
                let mut ss: Vec<(u64, usize, usize, Dir)> = e.shares.iter().map(|r| (r.paddr, r.vaddr, r.len, r.dir)).collect();
                ss.sort();
                if us != ss {
                    c.v("C04", "unshare_set_mismatch", format!("completion of token {} unshared {:x?} but the submission shared {:x?}", token, us, ss));
                }
                // C04: data
                let pat = Core::pattern_bytes(e.pattern, e.wlen);
                let mut off = 0;
                for b in &outs {
                    let n = b.len().min(e.wlen - off);
                    if b[..n] != pat[off..off + n] {
                        c.v("C04", "device_bytes_missing_after_pop", format!("writable buffer of token {} does not hold the {} bytes the device wrote", token, e.wlen));
                        break;
                    }
                    off += n;
                }
                let mut ih = Hash64::new();
                for b in &ins {
                    ih.bytes(b);
                }
                if ih.finish() != e.ins_copy_hash {
                    c.v("C04", "readable_buffer_modified", format!("readable buffer of token {} changed", token));
                }
                c.add_c("bytes_checked", e.wlen as u64);
                for d in &e.descs {
                    c.desc_owner[*d as usize] = None;
                }
                c.free += e.descs.len();
                c.consumed = c.consumed.wrapping_add(1);
                if self.cfg.event_idx {
                    match c.dev.used_event() {
                        Ok(v) if v == c.consumed => c.inc("used_event_checks"),
                        Ok(v) => {
                            let cons = c.consumed;
                            c.v("C05", "used_event_not_rearmed", format!("after {} consumed completions used_event is {}", cons, v))
                        }
                        Err(e) => c.v("C05", "avail_unreadable", e),
                    }
                }
            }
            (got, want) => {
                c.v("C03", "poll_result_differs_from_model", format!("pop_used(token {}) = {:?}, reference ring says {:?} (used entries visible at the driver's index load: {})", token, got, want, flen));
                if have_entry {
                    if let Some(e) = c.entries.get_mut(&token) {
                        e.ins = ins;
                        e.outs = outs;
                    }
                }
            }
        }
    }

    pub fn op_query(&mut self) {
        self.ophash.u64(0x9e);
        let q = self.q.as_ref().unwrap();
        self.core.borrow_mut().fifo_len_at_load = None;
        let can = catch_unwind(AssertUnwindSafe(|| q.can_pop()));
        let l1 = self.core.borrow().fifo_len_at_load;
        self.core.borrow_mut().fifo_len_at_load = None;
        let peek = catch_unwind(AssertUnwindSafe(|| q.peek_used()));
        let l2 = self.core.borrow().fifo_len_at_load;
        let avail = catch_unwind(AssertUnwindSafe(|| q.available_desc()));
        let mut c = self.core.borrow_mut();
        c.inc("queries");
        let (Ok(can), Ok(peek), Ok(avail)) = (can, peek, avail) else {
            c.v("C03", "panic_in_query", "can_pop/peek_used/available_desc panicked".into());
            return;
        };
        let f1 = l1.unwrap_or(c.fifo.len());
        let f2 = l2.unwrap_or(c.fifo.len());
        if can != (f1 > 0) {
            c.v("C03", "can_pop_wrong", format!("can_pop() = {} with {} unconsumed completions", can, f1));
        }
        let want = if f2 > 0 { c.fifo.front().map(|x| x.0) } else { None };
        if peek != want {
            c.v("C03", "peek_used_wrong", format!("peek_used() = {:?}, reference ring head {:?}", peek, want));
        }
        if self.cfg.indirect {
            if (avail == 0) != (c.free == 0) || (avail != 0 && avail != self.cfg.size) {
                let fr = c.free;
                c.v("C03", "available_desc_wrong", format!("available_desc() = {} in indirect mode with {} free descriptors", avail, fr));
            }
        } else if avail != c.free {
            let fr = c.free;
            c.v("C03", "available_desc_wrong", format!("available_desc() = {} but {} descriptors are free", avail, fr));
        }
    }

    /// Device changes its notification-suppression state.
    pub fn dev_set_suppression(&mut self, rng: &mut Rng) {
        let c = self.core.borrow();
        if self.cfg.event_idx {
            // bias towards values near the current index (including behind it and far away)
            let base = c.avail_model;
            let v = match rng.below(4) {
                0 => base.wrapping_add(rng.below(8) as u16),
                1 => base.wrapping_sub(rng.below(8) as u16 + 1),
                2 => rng.next() as u16,
                _ => base,
            };
            let _ = c.dev.set_avail_event(v);
        } else {
            let _ = c.dev.set_used_flags(rng.below(2) as u16);
        }
        self.ophash.u64(0x5e);
    }

    /// C05(a): compare should_notify() with the specification predicate.
    pub fn op_should_notify(&mut self) {
        self.ophash.u64(0x5a);
        let q = self.q.as_ref().unwrap();
        let r = catch_unwind(AssertUnwindSafe(|| q.should_notify()));
        let mut c = self.core.borrow_mut();
        let Ok(r) = r else {
            c.v("C05", "panic_in_should_notify", "should_notify panicked".into());
            return;
        };
        let new = c.avail_model;
        let old = c.last_check_idx;
        if self.cfg.event_idx {
            let ev = c.dev.avail_event().unwrap_or(0);
            if new != old {
                let need = VqDev::vring_need_event(ev, new, old);
                c.inc("should_notify_checks");
                if need {
                    c.inc("should_notify_needed");
                }
                if need && !r {
                    let wrapped = new < old;
                    let disc = if wrapped { "index_wrapped_inside_batch" } else { "no_wrap" };
                    let d = format!("event-idx: old={} new={} avail_event={} => notification required, should_notify() = false [{}]", old, new, ev, disc);
                    c.v_soft("C05", if wrapped { "need_event_but_no_notify/wrapped" } else { "need_event_but_no_notify" }, d);
                }
                if !need && r {
                    c.inc("extra_notifications");
                }
            }
        } else {
            let fl = c.dev.used_flags().unwrap_or(0);
            c.inc("should_notify_checks");
            let need = fl & 1 == 0;
            if need != r {
                c.v_soft("C05", "flag_mode_notify_wrong", format!("used.flags={} but should_notify() = {}", fl, r));
            }
        }
        c.last_check_idx = new;
    }

    /// C05(b): the driver's interrupt-suppression request as the device reads it.
    pub fn op_set_dev_notify(&mut self, enable: bool) {
        self.ophash.u64(0x5d | (enable as u64) << 8);
        let q = self.q.as_mut().unwrap();
        let r = catch_unwind(AssertUnwindSafe(|| q.set_dev_notify(enable)));
        let mut c = self.core.borrow_mut();
        if r.is_err() {
            c.v("C05", "panic_in_set_dev_notify", "set_dev_notify panicked".into());
            return;
        }
        let fl = c.dev.avail_flags().unwrap_or(0xffff);
        c.inc("set_dev_notify_checks");
        if self.cfg.event_idx {
            if fl != 0 {
                c.v("C05", "avail_flags_written_in_event_idx_mode", format!("avail.flags = {} with event-idx negotiated", fl));
            }
        } else {
            c.flag_mode_requested = Some(enable);
            let want = if enable { 0 } else { 1 };
            if fl != want {
                c.v("C05", "avail_flags_wrong", format!("set_dev_notify({}) left avail.flags = {}", enable, fl));
            }
        }
    }

    /// Drop the queue and audit the ledger.  `drained` = every submission was completed and popped.
    pub fn finish(&mut self) {
        let drained = self.outstanding() == 0;
        hooks::clear();
        let q = self.q.take();
        let r = catch_unwind(AssertUnwindSafe(|| drop(q)));
        let t = self.transport.take();
        drop(t);
        self.ledger_viols("C06");
        let (regions, shares) = mem::with(|l| (l.live_regions(), l.active_shares()));
        let mut c = self.core.borrow_mut();
        if r.is_err() {
            c.v("C06", "panic_in_queue_drop", "dropping the queue panicked".into());
        }
        if regions != 0 {
            c.v("C06", "dma_region_leaked", format!("{} DMA regions still allocated after the queue was dropped", regions));
        }
        if drained && shares != 0 {
            c.v("C04", "share_leaked", format!("{} buffers still shared after every completion was consumed", shares));
        }
        c.inc("queues_dropped");
    }
}

// ---------------------------------------------------------------------------------------------
// Random history driver

pub struct CaseOutcome {
    pub viol: Vec<Viol>,
    pub counters: BTreeMap<&'static str, u64>,
    pub nontrivial: bool,
    pub hash: u64,
    pub oplog: Vec<String>,
    pub steps_done: usize,
}

pub fn gen_lens(rng: &mut Rng, n: usize, max_len: usize) -> Vec<usize> {
    (0..n)
        .map(|_| match rng.below(8) {
            0 => 1,
            1 => max_len,
            _ => rng.range(1, max_len as u64) as usize,
        })
        .collect()
}

/// One random history on a fresh queue.  Deterministic in (cfg, knobs, seed).
pub fn run_history(cfg: QCfg, knobs: &Knobs, seed: u64, keep_oplog: bool, focus_notify: bool) -> CaseOutcome {
    let mut rng = Rng::new(seed);
    let mut sim = match QSim::new(cfg, knobs.clone(), rng.next()) {
        Ok(s) => s,
        Err(e) if e.starts_with("AREA: ") => {
            let d = format!("{} ({})", &e[6..], cfg.describe());
            return CaseOutcome {
                viol: vec![
                    Viol { prop: "C04", rule: "queue_area_address_not_from_dma_allocation", detail: d.clone(), fatal: true },
                    Viol { prop: "C06", rule: "area_outside_dma", detail: d, fatal: true },
                ],
                counters: BTreeMap::new(), nontrivial: false, hash: 0, oplog: vec![], steps_done: 0,
            };
        }
        Err(e) => {
            return CaseOutcome { viol: vec![Viol { prop: "C06", rule: "queue_creation_failed", detail: format!("{} ({})", e, cfg.describe()), fatal: true }], counters: BTreeMap::new(), nontrivial: false, hash: 0, oplog: vec![], steps_done: 0 };
        }
    };
    sim.keep_oplog = keep_oplog;
    cfg.hash(&mut sim.ophash);
    let n = cfg.size;
    let mut steps_done = 0;
    let hard_cap = knobs.steps.saturating_mul(40);
    loop {
        if steps_done >= knobs.steps && (knobs.min_adds == 0 || steps_done >= hard_cap || sim.core.borrow().avail_model_total >= knobs.min_adds) {
            break;
        }
        steps_done += 1;
        if sim.failed() {
            break;
        }
        let out = sim.outstanding();
        let r = rng.below(100);
        // weights shift with fill level
        let want_add = if out == 0 { 70 } else if sim.free_model() == 0 { 8 } else { knobs.fill_bias.min(90) * 6 / 10 };
        if r < want_add {
            let maxb = knobs.max_bufs.min(n.max(1)).max(1);
            let total = match rng.below(10) {
                0 => 1,
                1 => maxb,
                2 if !cfg.indirect => (sim.free_model() + rng.below(2) as usize).clamp(1, n), // exactly full / one too many
                _ => rng.range(1, maxb as u64) as usize,
            };
            let total = if rng.chance(1, 200) { 0 } else { total };
            let total = if cfg.indirect { total.min(n) } else { total };
            let n_in = match rng.below(5) {
                0 => 0,
                1 => total,
                _ => rng.below(total as u64 + 1) as usize,
            };
            let li = gen_lens(&mut rng, n_in, knobs.max_len);
            let lo = gen_lens(&mut rng, total - n_in, knobs.max_len);
            sim.op_add(&li, &lo, &mut rng);
            if focus_notify && rng.chance(1, 2) {
                sim.op_should_notify();
            }
        } else if r < want_add + 12 {
            if rng.chance(1, 3) {
                sim.dev_fetch_some(rng.range(1, 3) as usize);
            } else {
                sim.dev_fetch_all();
            }
        } else if r < want_add + 30 {
            if sim.n_fetched() == 0 {
                sim.dev_fetch_all();
            }
            if rng.chance(1, 5) {
                let k = rng.range(2, 4) as usize;
                sim.dev_complete_batch(k, &mut rng);
            } else {
                let pick = if rng.chance(1, 3) { 0 } else { rng.next() >> 8 };
                sim.dev_complete(pick, rng.next());
            }
        } else if r < want_add + 52 {
            let kind = if rng.below(100) < knobs.wrong_token_pct { 1 + rng.below(3) } else { 0 };
            sim.op_pop(kind, &mut rng);
        } else if r < want_add + 58 {
            sim.op_query();
        } else if r < want_add + 64 {
            sim.dev_set_suppression(&mut rng);
        } else if r < want_add + 70 {
            sim.op_should_notify();
        } else if r < want_add + 74 {
            sim.op_set_dev_notify(rng.bool());
        } else {
            sim.op_query();
        }
    }
    // capacity probe + drain (quiescent point), unless already failed
    if !sim.failed() {
        capacity_probe_and_drain(&mut sim, &mut rng);
    }
    let drained = sim.outstanding() == 0;
    if !sim.failed() {
        sim.finish();
    } else {
        hooks::clear();
    }
    let core = sim.core.borrow();
    let nontrivial = core.saw_multi && core.saw_ooo && core.saw_reuse && drained;
    CaseOutcome { viol: core.viol.clone(), counters: core.c.clone(), nontrivial, hash: sim.ophash.finish(), oplog: sim.oplog.clone(), steps_done }
}

/// Fill the queue with 1-buffer chains until refusal (count must equal the model's free count), then
/// complete and pop everything.
pub fn capacity_probe_and_drain(sim: &mut QSim, rng: &mut Rng) {
    let free = sim.free_model();
    let mut accepted = 0usize;
    // bounded: at most size+1 attempts
    for _ in 0..=sim.cfg.size {
        if sim.failed() {
            return;
        }
        let r = if rng.bool() { sim.op_add(&[8], &[], rng) } else { sim.op_add(&[], &[8], rng) };
        if r.is_none() {
            break;
        }
        accepted += 1;
    }
    if sim.failed() {
        return;
    }
    {
        let mut c = sim.core.borrow_mut();
        c.inc("capacity_probes");
        if accepted != free {
            let d = format!("capacity probe: {} one-buffer chains accepted, reference model had {} free descriptors ({})", accepted, free, sim.cfg.describe());
            c.v("C03", "capacity_differs_from_model", d);
        }
    }
    // drain
    let mut guard = 0;
    while sim.outstanding() > 0 && !sim.failed() {
        guard += 1;
        if guard > 4 * sim.cfg.size + 64 {
            sim.core.borrow_mut().v("C03", "cannot_drain", "history could not be drained".into());
            return;
        }
        sim.dev_fetch_all();
        while sim.n_fetched() > 0 {
            sim.dev_complete(rng.next() >> 8, rng.next());
        }
        while sim.n_completed() > 0 && !sim.failed() {
            sim.op_pop(0, rng);
        }
    }
    if !sim.failed() {
        sim.op_query();
    }
}
