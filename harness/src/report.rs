//! Per-shard result accumulation and the single JSON result line each worker prints.
use crate::json::J;
use std::collections::{BTreeMap, HashSet};

#[derive(Clone, Debug)]
pub struct Violation {
    pub prop: String,
    /// Stable signature: "<prop>/<rule>[/<discriminator>]" — matched against known_findings.jsonl.
    pub signature: String,
    pub detail: String,
    /// Everything needed to re-run the failing case.
    pub replay: J,
}

pub struct Shard {
    pub prop: String,
    pub tier: String,
    pub build: String,
    pub seed: u64,
    pub shard: u64,
    pub nshards: u64,
    pub evaluations: u64,
    pub nontrivial: HashSet<u64>,
    pub counters: BTreeMap<String, u64>,
    pub samples: Vec<J>,
    pub violations: Vec<Violation>,
    /// Violations of *other* properties noticed while running this check (counted, not alarmed).
    pub foreign: BTreeMap<String, u64>,
    pub inconclusive: Vec<String>,
    pub notes: BTreeMap<String, J>,
    pub max_samples: usize,
}

impl Shard {
    pub fn new(prop: &str, tier: &str, build: &str, seed: u64, shard: u64, nshards: u64) -> Shard {
        Shard {
            prop: prop.into(),
            tier: tier.into(),
            build: build.into(),
            seed,
            shard,
            nshards,
            evaluations: 0,
            nontrivial: HashSet::new(),
            counters: BTreeMap::new(),
            samples: vec![],
            violations: vec![],
            foreign: BTreeMap::new(),
            inconclusive: vec![],
            notes: BTreeMap::new(),
            max_samples: 3,
        }
    }
    pub fn inc(&mut self, k: &str, by: u64) {
        *self.counters.entry(k.to_string()).or_insert(0) += by;
    }
    pub fn max(&mut self, k: &str, v: u64) {
        let e = self.counters.entry(k.to_string()).or_insert(0);
        if v > *e {
            *e = v;
        }
    }
    pub fn sample(&mut self, s: J) {
        if self.samples.len() < self.max_samples {
            self.samples.push(s);
        }
    }
    pub fn want_sample(&self) -> bool {
        self.samples.len() < self.max_samples
    }
    /// Record a violation: alarmed if it belongs to this shard's property, otherwise counted as foreign.
    pub fn violation(&mut self, v: Violation) {
        if v.prop == self.prop {
            // keep at most two witnesses per signature so that one (possibly known) finding cannot
            // crowd out different ones
            if self.violations.iter().filter(|x| x.signature == v.signature).count() >= 2 {
                *self.counters.entry(format!("more_witnesses_of_{}", v.signature)).or_insert(0) += 1;
                return;
            }
            if self.violations.len() < 20 {
                self.violations.push(v);
            } else {
                self.inc("violations_dropped", 1);
            }
        } else {
            *self.foreign.entry(v.signature.clone()).or_insert(0) += 1;
        }
    }
    pub fn has_own_violation(&self) -> bool {
        !self.violations.is_empty()
    }
    pub fn to_json(&self) -> J {
        let mut o = J::obj();
        o.set("property", J::s(self.prop.clone()));
        o.set("tier", J::s(self.tier.clone()));
        o.set("build", J::s(self.build.clone()));
        o.set("seed", J::u(self.seed));
        o.set("shard", J::u(self.shard));
        o.set("nshards", J::u(self.nshards));
        o.set("evaluations", J::u(self.evaluations));
        o.set("distinct_nontrivial", J::us(self.nontrivial.len()));
        let mut hs: Vec<u64> = self.nontrivial.iter().copied().collect();
        hs.sort_unstable();
        hs.truncate(20000);
        o.set("hash_sample", J::arr(hs.into_iter().map(|h| J::s(format!("{:016x}", h)))));
        let mut c = J::obj();
        for (k, v) in &self.counters {
            c.set(k, J::u(*v));
        }
        o.set("observed", c);
        o.set("samples", J::Arr(self.samples.clone()));
        o.set(
            "violations",
            J::arr(self.violations.iter().map(|v| {
                J::obj().with("property", J::s(v.prop.clone())).with("signature", J::s(v.signature.clone())).with("detail", J::s(v.detail.clone())).with("replay", v.replay.clone())
            })),
        );
        let mut f = J::obj();
        for (k, v) in &self.foreign {
            f.set(k, J::u(*v));
        }
        o.set("foreign_violations", f);
        o.set("inconclusive", J::arr(self.inconclusive.iter().map(|s| J::s(s.clone()))));
        let mut n = J::obj();
        for (k, v) in &self.notes {
            n.set(k, v.clone());
        }
        o.set("notes", n);
        o
    }
    pub fn emit(&self) {
        println!("RESULT {}", self.to_json().to_string());
    }
}
