//! Deterministic PRNG (splitmix64 -> xoshiro256**). No external crates.

#[derive(Clone, Debug)]
pub struct Rng {
    s: [u64; 4],
    /// running fingerprint of every value handed out (after range reduction): two generators that
    /// handed out the same values generated the same inputs
    fp: u64,
}

thread_local! {
    static CASE_FP: std::cell::Cell<u64> = const { std::cell::Cell::new(0) };
}

/// Content fingerprint of a case = combination of the fingerprints of all generators dropped since the
/// last `reset_case_fp()` (used for evidence `distinct_nontrivial` where a case is pure generated input).
pub fn reset_case_fp() {
    CASE_FP.with(|c| c.set(0));
}
pub fn take_case_fp() -> u64 {
    CASE_FP.with(|c| c.replace(0))
}

impl Drop for Rng {
    fn drop(&mut self) {
        let f = self.fp;
        if f != 0 {
            let _ = CASE_FP.try_with(|c| c.set(c.get().wrapping_add(f.wrapping_mul(0x9e3779b97f4a7c15) | 1)));
        }
    }
}

pub fn splitmix64(x: &mut u64) -> u64 {
    *x = x.wrapping_add(0x9e3779b97f4a7c15);
    let mut z = *x;
    z = (z ^ (z >> 30)).wrapping_mul(0xbf58476d1ce4e5b9);
    z = (z ^ (z >> 27)).wrapping_mul(0x94d049bb133111eb);
    z ^ (z >> 31)
}

impl Rng {
    pub fn new(seed: u64) -> Self {
        let mut x = seed;
        let s = [
            splitmix64(&mut x),
            splitmix64(&mut x),
            splitmix64(&mut x),
            splitmix64(&mut x),
        ];
        Rng { s, fp: 0 }
    }
    #[inline]
    fn fold(&mut self, v: u64) {
        self.fp = (self.fp ^ v).wrapping_mul(0x0000_0100_0000_01b3).rotate_left(29) ^ 0x5bd1e995;
    }
    /// Independent stream for (seed, a, b, c).
    pub fn derive(seed: u64, a: u64, b: u64, c: u64) -> Self {
        let mut x = seed ^ 0x5851f42d4c957f2d;
        let mut h = splitmix64(&mut x);
        for v in [a, b, c] {
            x = h ^ v.wrapping_mul(0x9e3779b97f4a7c15);
            h = splitmix64(&mut x);
        }
        Rng::new(h)
    }
    pub fn next(&mut self) -> u64 {
        let r = self.raw();
        self.fold(r);
        r
    }
    #[inline]
    fn raw(&mut self) -> u64 {
        let r = self.s[1].wrapping_mul(5).rotate_left(7).wrapping_mul(9);
        let t = self.s[1] << 17;
        self.s[2] ^= self.s[0];
        self.s[3] ^= self.s[1];
        self.s[1] ^= self.s[2];
        self.s[0] ^= self.s[3];
        self.s[2] ^= t;
        self.s[3] = self.s[3].rotate_left(45);
        r
    }
    /// Uniform in [0, n) (n > 0).
    pub fn below(&mut self, n: u64) -> u64 {
        debug_assert!(n > 0);
        let v = ((self.raw() as u128 * n as u128) >> 64) as u64;
        self.fold(v);
        v
    }
    pub fn range(&mut self, lo: u64, hi_incl: u64) -> u64 {
        lo + self.below(hi_incl - lo + 1)
    }
    pub fn chance(&mut self, num: u64, den: u64) -> bool {
        self.below(den) < num
    }
    pub fn bool(&mut self) -> bool {
        let b = self.raw() & 1;
        self.fold(b);
        b == 1
    }
    pub fn pick<'a, T>(&mut self, xs: &'a [T]) -> &'a T {
        &xs[self.below(xs.len() as u64) as usize]
    }
    pub fn fill(&mut self, buf: &mut [u8]) {
        for c in buf.chunks_mut(8) {
            let v = self.next().to_le_bytes();
            c.copy_from_slice(&v[..c.len()]);
        }
    }
    pub fn shuffle<T>(&mut self, xs: &mut [T]) {
        for i in (1..xs.len()).rev() {
            let j = self.below(i as u64 + 1) as usize;
            xs.swap(i, j);
        }
    }
}

/// FNV-1a style 64-bit hasher for case-distinctness keys.
#[derive(Clone, Copy)]
pub struct Hash64(pub u64);
impl Default for Hash64 {
    fn default() -> Self {
        Hash64(0xcbf29ce484222325)
    }
}
impl Hash64 {
    pub fn new() -> Self {
        Self::default()
    }
    pub fn u64(&mut self, v: u64) {
        let mut x = self.0 ^ v;
        x = x.wrapping_mul(0x100000001b3);
        x ^= x >> 29;
        x = x.wrapping_mul(0xbf58476d1ce4e5b9);
        self.0 = x ^ (x >> 32);
    }
    pub fn bytes(&mut self, b: &[u8]) {
        for c in b.chunks(8) {
            let mut v = [0u8; 8];
            v[..c.len()].copy_from_slice(c);
            self.u64(u64::from_le_bytes(v));
        }
        self.u64(b.len() as u64);
    }
    pub fn finish(&self) -> u64 {
        self.0
    }
}
