//! Reference split-virtqueue device (DESIGN §2.3): walks the memory registered through
//! `Transport::queue_set` exactly as a device would, via the ledger's device-side accessors.

use crate::mem;
use crate::xport_model::QueueReg;

pub const F_NEXT: u16 = 1;
pub const F_WRITE: u16 = 2;
pub const F_INDIRECT: u16 = 4;

#[derive(Clone, Copy, Debug, PartialEq, Eq)]
pub struct RawDesc {
    pub addr: u64,
    pub len: u32,
    pub flags: u16,
    pub next: u16,
}

#[derive(Clone, Debug, PartialEq, Eq)]
pub struct Elem {
    pub addr: u64,
    pub len: u32,
    pub write: bool,
}

#[derive(Clone, Debug, PartialEq, Eq)]
pub struct Chain {
    pub head: u16,
    pub indirect: bool,
    /// (address, byte length) of the indirect table, if any.
    pub table: Option<(u64, u32)>,
    pub elems: Vec<Elem>,
    /// Indices of the descriptor-table entries this chain occupies.
    pub descs: Vec<u16>,
}

impl Chain {
    pub fn readable_len(&self) -> usize {
        self.elems.iter().filter(|e| !e.write).map(|e| e.len as usize).sum()
    }
    pub fn writable_len(&self) -> usize {
        self.elems.iter().filter(|e| e.write).map(|e| e.len as usize).sum()
    }
}

#[derive(Clone, Debug)]
pub struct VqDev {
    pub q: u16,
    pub size: u16,
    pub desc: u64,
    pub avail: u64,
    pub used: u64,
    pub indirect_ok: bool,
    pub event_idx: bool,
    /// Next available-ring index the device will consume.
    pub next_avail: u16,
    /// The device's own copy of used.idx.
    pub used_idx: u16,
}

fn parse_desc(b: &[u8]) -> RawDesc {
    RawDesc {
        addr: u64::from_le_bytes(b[0..8].try_into().unwrap()),
        len: u32::from_le_bytes(b[8..12].try_into().unwrap()),
        flags: u16::from_le_bytes(b[12..14].try_into().unwrap()),
        next: u16::from_le_bytes(b[14..16].try_into().unwrap()),
    }
}

impl VqDev {
    pub fn new(q: u16, reg: QueueReg, indirect_ok: bool, event_idx: bool) -> VqDev {
        VqDev { q, size: reg.size as u16, desc: reg.desc, avail: reg.driver, used: reg.device, indirect_ok, event_idx, next_avail: 0, used_idx: 0 }
    }
    fn mask(&self) -> u16 {
        self.size.wrapping_sub(1)
    }
    pub fn avail_flags(&self) -> Result<u16, String> {
        mem::with(|l| l.dev_read_u16(self.avail))
    }
    pub fn avail_idx(&self) -> Result<u16, String> {
        mem::with(|l| l.dev_read_u16(self.avail + 2))
    }
    pub fn avail_ring(&self, slot: u16) -> Result<u16, String> {
        mem::with(|l| l.dev_read_u16(self.avail + 4 + 2 * slot as u64))
    }
    pub fn used_event(&self) -> Result<u16, String> {
        mem::with(|l| l.dev_read_u16(self.avail + 4 + 2 * self.size as u64))
    }
    pub fn used_flags(&self) -> Result<u16, String> {
        mem::with(|l| l.dev_read_u16(self.used))
    }
    pub fn read_used_idx(&self) -> Result<u16, String> {
        mem::with(|l| l.dev_read_u16(self.used + 2))
    }
    pub fn set_used_flags(&self, v: u16) -> Result<(), String> {
        mem::with(|l| l.dev_write_u16(self.used, v))
    }
    pub fn set_avail_event(&self, v: u16) -> Result<(), String> {
        mem::with(|l| l.dev_write_u16(self.used + 4 + 8 * self.size as u64, v))
    }
    pub fn avail_event(&self) -> Result<u16, String> {
        mem::with(|l| l.dev_read_u16(self.used + 4 + 8 * self.size as u64))
    }
    pub fn write_used_elem(&self, slot: u16, id: u32, len: u32) -> Result<(), String> {
        let a = self.used + 4 + 8 * slot as u64;
        mem::with(|l| {
            l.dev_write_u32(a, id)?;
            l.dev_write_u32(a + 4, len)
        })
    }
    pub fn store_used_idx(&self, v: u16) -> Result<(), String> {
        mem::with(|l| l.dev_write_u16(self.used + 2, v))
    }
    pub fn read_desc(&self, i: u16) -> Result<RawDesc, String> {
        let mut b = [0u8; 16];
        mem::with(|l| l.dev_read(self.desc + 16 * i as u64, &mut b))?;
        Ok(parse_desc(&b))
    }

    /// Walk and validate the chain starting at `head` (C01 structural rules).
    pub fn walk(&self, head: u16) -> Result<Chain, String> {
        if head >= self.size {
            return Err(format!("head index {} out of range (queue size {})", head, self.size));
        }
        let d0 = self.read_desc(head)?;
        if d0.flags & F_INDIRECT != 0 {
            if !self.indirect_ok {
                return Err(format!("descriptor {} has INDIRECT flag but indirect descriptors are not enabled for this queue", head));
            }
            if d0.flags != F_INDIRECT {
                return Err(format!("indirect descriptor {} carries extra flags {:#x}", head, d0.flags));
            }
            if d0.len == 0 || d0.len % 16 != 0 {
                return Err(format!("indirect table length {} is not a positive multiple of 16", d0.len));
            }
            let n = (d0.len / 16) as usize;
            if n > 65536 {
                return Err(format!("indirect table with {} entries", n));
            }
            let mut raw = vec![0u8; d0.len as usize];
            mem::with(|l| l.dev_read(d0.addr, &mut raw)).map_err(|e| format!("indirect table: {}", e))?;
            let mut elems = vec![];
            let mut seen = vec![false; n];
            let mut i = 0usize;
            let mut seen_write = false;
            loop {
                if i >= n {
                    return Err(format!("indirect table entry index {} out of range ({} entries)", i, n));
                }
                if seen[i] {
                    return Err(format!("indirect table loops at entry {}", i));
                }
                seen[i] = true;
                let d = parse_desc(&raw[16 * i..16 * i + 16]);
                if d.flags & F_INDIRECT != 0 {
                    return Err(format!("indirect table entry {} has INDIRECT flag", i));
                }
                let w = d.flags & F_WRITE != 0;
                if seen_write && !w {
                    return Err(format!("device-readable entry {} after a device-writable one", i));
                }
                seen_write |= w;
                elems.push(Elem { addr: d.addr, len: d.len, write: w });
                if d.flags & F_NEXT != 0 {
                    if d.next as usize != i + 1 {
                        return Err(format!("indirect table entry {} links to {} (expected {})", i, d.next, i + 1));
                    }
                    i = d.next as usize;
                } else {
                    break;
                }
            }
            if elems.len() != n {
                return Err(format!("indirect table has {} entries but the chain uses {}", n, elems.len()));
            }
            return Ok(Chain { head, indirect: true, table: Some((d0.addr, d0.len)), elems, descs: vec![head] });
        }
        let mut elems = vec![];
        let mut descs = vec![];
        let mut seen: Vec<bool> = vec![];
        let mut i = head;
        let mut seen_write = false;
        loop {
            if i >= self.size {
                return Err(format!("descriptor index {} out of range (queue size {})", i, self.size));
            }
            // short chains: linear scan; long chains: bitmap (allocated lazily)
            let revisit = if seen.is_empty() { descs.contains(&i) } else { seen[i as usize] };
            if revisit {
                return Err(format!("descriptor chain loops at index {}", i));
            }
            if seen.is_empty() && descs.len() >= 48 {
                seen = vec![false; self.size as usize];
                for d in &descs {
                    seen[*d as usize] = true;
                }
            }
            if !seen.is_empty() {
                seen[i as usize] = true;
            }
            let d = self.read_desc(i)?;
            if d.flags & F_INDIRECT != 0 {
                return Err(format!("descriptor {} inside a chain has INDIRECT flag", i));
            }
            let w = d.flags & F_WRITE != 0;
            if seen_write && !w {
                return Err(format!("device-readable descriptor {} after a device-writable one", i));
            }
            seen_write |= w;
            elems.push(Elem { addr: d.addr, len: d.len, write: w });
            descs.push(i);
            if d.flags & F_NEXT != 0 {
                i = d.next;
            } else {
                break;
            }
        }
        Ok(Chain { head, indirect: false, table: None, elems, descs })
    }

    /// Number of available entries not yet consumed by the device.
    pub fn pending(&self) -> Result<u16, String> {
        Ok(self.avail_idx()?.wrapping_sub(self.next_avail))
    }

    /// Consume the next available entry (head index only).
    pub fn fetch_head(&mut self) -> Result<Option<u16>, String> {
        if self.pending()? == 0 {
            return Ok(None);
        }
        let slot = self.next_avail & self.mask();
        let head = self.avail_ring(slot)?;
        self.next_avail = self.next_avail.wrapping_add(1);
        Ok(Some(head))
    }

    /// Consume and validate the next available entry.
    pub fn fetch(&mut self) -> Result<Option<Chain>, String> {
        match self.fetch_head()? {
            None => Ok(None),
            Some(h) => self.walk(h).map(Some),
        }
    }

    /// Publish a completion: used element first, then the index.
    pub fn complete(&mut self, head: u16, len: u32) -> Result<(), String> {
        let slot = self.used_idx & self.mask();
        self.write_used_elem(slot, head as u32, len)?;
        self.used_idx = self.used_idx.wrapping_add(1);
        self.store_used_idx(self.used_idx)
    }

    /// Concatenation of all device-readable bytes of the chain.
    pub fn read_payload(&self, c: &Chain) -> Result<Vec<u8>, String> {
        let mut out = Vec::with_capacity(c.readable_len());
        for e in c.elems.iter().filter(|e| !e.write) {
            let s = out.len();
            out.resize(s + e.len as usize, 0);
            mem::with(|l| l.dev_read(e.addr, &mut out[s..]))?;
        }
        Ok(out)
    }

    /// Scatter `data` over the device-writable part; returns bytes written.
    pub fn write_payload(&self, c: &Chain, data: &[u8]) -> Result<usize, String> {
        let mut off = 0usize;
        for e in c.elems.iter().filter(|e| e.write) {
            if off >= data.len() {
                break;
            }
            let n = (e.len as usize).min(data.len() - off);
            mem::with(|l| l.dev_write(e.addr, &data[off..off + n]))?;
            off += n;
        }
        Ok(off)
    }

    /// Spec predicate: does the device need to interrupt for a completion just published?
    pub fn vring_need_event(event: u16, new: u16, old: u16) -> bool {
        new.wrapping_sub(event).wrapping_sub(1) < new.wrapping_sub(old)
    }
}
