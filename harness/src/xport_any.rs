//! One transport type for all driver-level checks: the model transport, the real MMIO transport
//! (legacy / modern) and the real PCI transport (optionally wrapped in `SomeTransport`), all backed by
//! the same `ModelState`, so device personalities and log monitors are transport-agnostic.

use crate::mem::{self, LedgerHal};
use crate::mmio_bus;
use crate::xport_mmio::{self, MmioDev};
use crate::xport_model::{ModelState, ModelTransport};
use crate::xport_pci::{BarKind, CommonWin, DevCfgWin, IsrWin, ModelCam, NotifyWin, PciFn, PciVirtio, Win, map_window, virtio_cap};
use std::cell::RefCell;
use std::ptr::NonNull;
use std::rc::Rc;
use virtio_drivers::transport::mmio::{MmioTransport, VirtIOHeader};
use virtio_drivers::transport::pci::PciTransport;
use virtio_drivers::transport::pci::bus::{DeviceFunction, PciRoot};
use virtio_drivers::transport::{DeviceStatus, DeviceType, InterruptStatus, SomeTransport, Transport};
use virtio_drivers::{PhysAddr, Result};
use zerocopy::{FromBytes, Immutable, IntoBytes};

#[derive(Clone, Copy, Debug, PartialEq, Eq)]
pub enum TKind {
    Model,
    /// model transport whose queue_unset is a no-op (like PCI)
    ModelNoUnset,
    /// model transport that requires the legacy queue layout
    ModelLegacy,
    MmioModern,
    MmioLegacy,
    Pci,
    /// PCI wrapped in SomeTransport
    SomePci,
    /// modern MMIO wrapped in SomeTransport
    SomeMmio,
}

pub const ALL_KINDS: [TKind; 8] = [TKind::Model, TKind::ModelNoUnset, TKind::ModelLegacy, TKind::MmioModern, TKind::MmioLegacy, TKind::Pci, TKind::SomePci, TKind::SomeMmio];

impl TKind {
    pub fn name(self) -> &'static str {
        match self {
            TKind::Model => "model",
            TKind::ModelNoUnset => "model_no_unset",
            TKind::ModelLegacy => "model_legacy",
            TKind::MmioModern => "mmio_modern",
            TKind::MmioLegacy => "mmio_legacy",
            TKind::Pci => "pci",
            TKind::SomePci => "some_pci",
            TKind::SomeMmio => "some_mmio",
        }
    }
    pub fn is_model(self) -> bool {
        matches!(self, TKind::Model | TKind::ModelNoUnset | TKind::ModelLegacy)
    }
    pub fn legacy(self) -> bool {
        matches!(self, TKind::ModelLegacy | TKind::MmioLegacy)
    }
    /// queue_unset does not disable the queue on this transport
    pub fn unset_is_noop(self) -> bool {
        matches!(self, TKind::ModelNoUnset | TKind::Pci | TKind::SomePci)
    }
    pub fn uses_bus(self) -> bool {
        !self.is_model()
    }
}

pub enum AnyT {
    Model(ModelTransport),
    Mmio(MmioTransport<'static>),
    Pci(PciTransport),
    Some(SomeTransport<'static>),
}

macro_rules! dispatch {
    ($self:ident, $t:ident => $e:expr) => {
        match $self {
            AnyT::Model($t) => $e,
            AnyT::Mmio($t) => $e,
            AnyT::Pci($t) => $e,
            AnyT::Some($t) => $e,
        }
    };
}

impl Transport for AnyT {
    fn device_type(&self) -> DeviceType {
        dispatch!(self, t => t.device_type())
    }
    fn read_device_features(&mut self) -> u64 {
        dispatch!(self, t => t.read_device_features())
    }
    fn write_driver_features(&mut self, driver_features: u64) {
        dispatch!(self, t => t.write_driver_features(driver_features))
    }
    fn max_queue_size(&mut self, queue: u16) -> u32 {
        dispatch!(self, t => t.max_queue_size(queue))
    }
    fn notify(&mut self, queue: u16) {
        dispatch!(self, t => t.notify(queue))
    }
    fn get_status(&self) -> DeviceStatus {
        dispatch!(self, t => t.get_status())
    }
    fn set_status(&mut self, status: DeviceStatus) {
        dispatch!(self, t => t.set_status(status))
    }
    fn set_guest_page_size(&mut self, guest_page_size: u32) {
        dispatch!(self, t => t.set_guest_page_size(guest_page_size))
    }
    fn requires_legacy_layout(&self) -> bool {
        dispatch!(self, t => t.requires_legacy_layout())
    }
    fn queue_set(&mut self, queue: u16, size: u32, descriptors: PhysAddr, driver_area: PhysAddr, device_area: PhysAddr) {
        dispatch!(self, t => t.queue_set(queue, size, descriptors, driver_area, device_area))
    }
    fn queue_unset(&mut self, queue: u16) {
        dispatch!(self, t => t.queue_unset(queue))
    }
    fn queue_used(&mut self, queue: u16) -> bool {
        dispatch!(self, t => t.queue_used(queue))
    }
    fn ack_interrupt(&mut self) -> InterruptStatus {
        dispatch!(self, t => t.ack_interrupt())
    }
    fn read_config_generation(&self) -> u32 {
        dispatch!(self, t => t.read_config_generation())
    }
    fn read_config_space<T: FromBytes + IntoBytes>(&self, offset: usize) -> Result<T> {
        dispatch!(self, t => t.read_config_space(offset))
    }
    fn write_config_space<T: IntoBytes + Immutable>(&mut self, offset: usize, value: T) -> Result<()> {
        dispatch!(self, t => t.write_config_space(offset, value))
    }
}

/// Everything the harness keeps about one emulated device instance.
pub struct Rig {
    pub kind: TKind,
    pub st: Rc<RefCell<ModelState>>,
    pub mmio: Option<Rc<RefCell<MmioDev>>>,
    pub pci: Option<Rc<RefCell<PciVirtio>>>,
}

impl Rig {
    /// Register-level checker findings (real transports only).
    pub fn take_register_violations(&self) -> Vec<(&'static str, String)> {
        let mut v = vec![];
        if let Some(m) = &self.mmio {
            v.extend(m.borrow_mut().take_viol());
        }
        if let Some(p) = &self.pci {
            v.extend(p.borrow_mut().take_viol());
        }
        for a in mmio_bus::take_unmapped() {
            v.push(("access_outside_windows", format!("{:x?}", a)));
        }
        v
    }
}

thread_local! {
    static MODEL_ONLY: std::cell::Cell<bool> = const { std::cell::Cell::new(false) };
}
/// Under Miri the register-level transports cannot run (their MMIO addresses are fabricated and only the
/// bus backend interprets them, but the library still does in-bounds pointer arithmetic on them): map
/// every transport kind to the model transport with the same observable behaviour class.
pub fn set_model_only(on: bool) {
    MODEL_ONLY.with(|c| c.set(on));
}

/// Build a device of the given type on the given transport.  `config` is the device-specific
/// configuration space.  Resets the MMIO bus (one device at a time per thread).
pub fn build(kind: TKind, device_type: DeviceType, offered: u64, config: Vec<u8>) -> (Rig, AnyT) {
    let kind = if MODEL_ONLY.with(|c| c.get()) {
        match kind {
            TKind::MmioLegacy => TKind::ModelLegacy,
            TKind::Pci | TKind::SomePci => TKind::ModelNoUnset,
            TKind::MmioModern | TKind::SomeMmio => TKind::Model,
            k => k,
        }
    } else {
        kind
    };
    mmio_bus::reset();
    let st = ModelState::new(device_type, offered);
    st.borrow_mut().config = config;
    st.borrow_mut().legacy = kind == TKind::ModelLegacy;
    st.borrow_mut().unset_is_noop = kind == TKind::ModelNoUnset;
    let did = device_type as u32;
    match kind {
        TKind::Model | TKind::ModelNoUnset | TKind::ModelLegacy => {
            let t = ModelTransport::new(&st);
            (Rig { kind, st, mmio: None, pci: None }, AnyT::Model(t))
        }
        TKind::MmioModern | TKind::MmioLegacy | TKind::SomeMmio => {
            let dev = MmioDev::new(&st, if kind == TKind::MmioLegacy { 1 } else { 2 }, did);
            let size = 0x100 + st.borrow().config.len();
            let (base, rc) = xport_mmio::map_device(dev, 3, size as u64);
            // SAFETY: the address is only ever interpreted by the MMIO bus backend.
            let t = unsafe { MmioTransport::new(NonNull::new(base as *mut VirtIOHeader).unwrap(), size) }.expect("mmio transport");
            let any = if kind == TKind::SomeMmio { AnyT::Some(t.into()) } else { AnyT::Mmio(t) };
            (Rig { kind, st, mmio: Some(rc), pci: None }, any)
        }
        TKind::Pci | TKind::SomePci => {
            let (t, pv) = build_pci(&st, did, None);
            let any = if kind == TKind::SomePci { AnyT::Some(t.into()) } else { AnyT::Pci(t) };
            (Rig { kind, st, mmio: None, pci: Some(pv) }, any)
        }
    }
}

/// Canonical virtio-pci function: one 64-bit memory BAR holding the four windows.  `dev_cfg_len`
/// overrides the length of the device-configuration capability (None = config.len(); Some(0) = no capability).
pub fn build_pci(st: &Rc<RefCell<ModelState>>, device_id: u32, dev_cfg_len: Option<u32>) -> (PciTransport, Rc<RefCell<PciVirtio>>) {
    try_build_pci(st, device_id, dev_cfg_len).expect("pci transport")
}

pub fn try_build_pci(st: &Rc<RefCell<ModelState>>, device_id: u32, dev_cfg_len: Option<u32>) -> std::result::Result<(PciTransport, Rc<RefCell<PciVirtio>>), virtio_drivers::transport::pci::VirtioPciError> {
    let df = DeviceFunction { bus: 0, device: 3, function: 0 };
    let mut f = PciFn::new(df);
    f.log_on = false;
    f.regs[0] = (0x1040 + device_id) << 16 | 0x1af4;
    let bar = 4usize;
    let bar_addr = 0x8_4000_0000u64;
    f.set_bar(bar, BarKind::Mem64 { size: 0x8000, prefetch: true }, bar_addr);
    f.set_command(0x0006);
    f.set_status(0x0010);
    f.snapshot();
    let cfg_len = dev_cfg_len.unwrap_or(st.borrow().config.len() as u32);
    let wins = [Win { bar: bar as u8, offset: 0, length: 0x1000 }, Win { bar: bar as u8, offset: 0x3000, length: 0x1000 }, Win { bar: bar as u8, offset: 0x1000, length: 0x1000 }, Win { bar: bar as u8, offset: 0x2000, length: cfg_len }];
    let mult = 4u32;
    let mut caps: Vec<(u8, Vec<u8>)> = vec![
        (0x40, virtio_cap(0x58, 16, 1, bar as u8, wins[0].offset, wins[0].length, None)),
        (0x58, virtio_cap(0x70, 16, 3, bar as u8, wins[2].offset, wins[2].length, None)),
        (0x70, virtio_cap(if cfg_len > 0 { 0x88 } else { 0 }, 20, 2, bar as u8, wins[1].offset, wins[1].length, Some(mult))),
    ];
    if cfg_len > 0 {
        caps.push((0x88, virtio_cap(0, 16, 4, bar as u8, wins[3].offset, wins[3].length, None)));
    }
    f.regs[0x34 / 4] = 0x40;
    for (off, b) in &caps {
        f.write_bytes(*off as usize, b);
    }
    let frc = Rc::new(RefCell::new(f));
    let mut root = PciRoot::new(ModelCam { f: frc });
    let t = PciTransport::new::<LedgerHal, _>(&mut root, df)?;
    mem::with(|l| l.p2v_requests.clear());
    let mut pvd = PciVirtio::new(st);
    pvd.notify_multiplier = mult;
    pvd.notify_len = 0x1000;
    let pv = Rc::new(RefCell::new(pvd));
    map_window(bar_addr, wins[0], Rc::new(RefCell::new(CommonWin(pv.clone()))));
    map_window(bar_addr, wins[1], Rc::new(RefCell::new(NotifyWin(pv.clone()))));
    map_window(bar_addr, wins[2], Rc::new(RefCell::new(IsrWin(pv.clone()))));
    if cfg_len > 0 {
        map_window(bar_addr, wins[3], Rc::new(RefCell::new(DevCfgWin(pv.clone()))));
    }
    Ok((t, pv))
}
