//! Register-level virtio-mmio reference device (legacy + modern) behind the MMIO bus, with a strict
//! access checker (DESIGN C10, Appendix A).  Its effects are mirrored into a `ModelState`, so the
//! same device personalities and log-based monitors work for the model transport and the real
//! `MmioTransport`.

use crate::evlog::{self, Ev};
use crate::mmio_bus::{self, MmioDevice};
use crate::xport_model::{CfgAccess, ModelState, QueueReg};
use std::cell::RefCell;
use std::collections::BTreeMap;
use std::rc::Rc;

pub const MAGIC: u32 = 0x7472_6976;

#[derive(Clone, Copy, Debug, Default)]
pub struct QLatch {
    pub num: Option<u32>,
    pub align: Option<u32>,
    pub pfn: u32,
    pub ready: bool,
    pub desc_lo: Option<u32>,
    pub desc_hi: Option<u32>,
    pub drv_lo: Option<u32>,
    pub drv_hi: Option<u32>,
    pub dev_lo: Option<u32>,
    pub dev_hi: Option<u32>,
    /// reads of QueueReady still return 1 this many times after 0 was written
    pub ready_lag: u32,
}

#[derive(Clone, Copy, Debug, PartialEq, Eq)]
enum Dirn {
    R,
    W,
    RW,
}

/// (offset, name, direction, legacy?, modern?, per-queue?)
const REGS: &[(u64, &str, Dirn, bool, bool, bool)] = &[
    (0x000, "MagicValue", Dirn::R, true, true, false),
    (0x004, "Version", Dirn::R, true, true, false),
    (0x008, "DeviceID", Dirn::R, true, true, false),
    (0x00c, "VendorID", Dirn::R, true, true, false),
    (0x010, "DeviceFeatures", Dirn::R, true, true, false),
    (0x014, "DeviceFeaturesSel", Dirn::W, true, true, false),
    (0x020, "DriverFeatures", Dirn::W, true, true, false),
    (0x024, "DriverFeaturesSel", Dirn::W, true, true, false),
    (0x028, "GuestPageSize", Dirn::W, true, false, false),
    (0x030, "QueueSel", Dirn::W, true, true, false),
    (0x034, "QueueNumMax", Dirn::R, true, true, true),
    (0x038, "QueueNum", Dirn::W, true, true, true),
    (0x03c, "QueueAlign", Dirn::W, true, false, true),
    (0x040, "QueuePFN", Dirn::RW, true, false, true),
    (0x044, "QueueReady", Dirn::RW, false, true, true),
    (0x050, "QueueNotify", Dirn::W, true, true, false),
    (0x060, "InterruptStatus", Dirn::R, true, true, false),
    (0x064, "InterruptACK", Dirn::W, true, true, false),
    (0x070, "Status", Dirn::RW, true, true, false),
    (0x080, "QueueDescLow", Dirn::W, false, true, true),
    (0x084, "QueueDescHigh", Dirn::W, false, true, true),
    (0x090, "QueueDriverLow", Dirn::W, false, true, true),
    (0x094, "QueueDriverHigh", Dirn::W, false, true, true),
    (0x0a0, "QueueDeviceLow", Dirn::W, false, true, true),
    (0x0a4, "QueueDeviceHigh", Dirn::W, false, true, true),
    (0x0fc, "ConfigGeneration", Dirn::R, true, true, false), // legacy: tolerated (reads as zero on known devices)
];

pub fn reg_name(off: u64) -> &'static str {
    REGS.iter().find(|r| r.0 == off).map(|r| r.1).unwrap_or("reserved")
}

pub struct MmioDev {
    pub st: Rc<RefCell<ModelState>>,
    pub magic: u32,
    pub version: u32,
    pub device_id: u32,
    pub vendor_id: u32,
    pub dev_feat_sel: Option<u32>,
    pub drv_feat_sel: Option<u32>,
    pub drv_feat: u64,
    pub queue_sel: Option<u32>,
    /// set by `begin_op`: QueueSel must be written again inside the operation before per-queue registers
    pub sel_fresh: bool,
    pub per_op_sel_rule: bool,
    pub q: BTreeMap<u32, QLatch>,
    pub guest_page_size: Option<u32>,
    pub viol: Vec<(&'static str, String)>,
    pub ready_lag: u32,
    pub accesses: u64,
    pub writes: u64,
    pub cfg_accesses: Vec<(bool, usize, usize)>, // (write, offset, len)
    pub legacy_gen_reads: u64,
    pub feat_read_lo: Option<u32>,
}

impl MmioDev {
    pub fn new(st: &Rc<RefCell<ModelState>>, version: u32, device_id: u32) -> MmioDev {
        MmioDev {
            st: st.clone(),
            magic: MAGIC,
            version,
            device_id,
            vendor_id: 0x554d4551,
            dev_feat_sel: None,
            drv_feat_sel: None,
            drv_feat: 0,
            queue_sel: None,
            sel_fresh: false,
            per_op_sel_rule: false,
            q: BTreeMap::new(),
            guest_page_size: None,
            viol: vec![],
            ready_lag: 0,
            accesses: 0,
            writes: 0,
            cfg_accesses: vec![],
            legacy_gen_reads: 0,
            feat_read_lo: None,
        }
    }
    fn v(&mut self, rule: &'static str, d: String) {
        if self.viol.len() < 32 {
            self.viol.push((rule, d));
        }
    }
    pub fn begin_op(&mut self) {
        self.sel_fresh = false;
    }
    pub fn take_viol(&mut self) -> Vec<(&'static str, String)> {
        std::mem::take(&mut self.viol)
    }
    fn legacy(&self) -> bool {
        self.version == 1
    }
    fn reset(&mut self) {
        self.q.clear();
        self.dev_feat_sel = None;
        self.drv_feat_sel = None;
        self.drv_feat = 0;
        self.queue_sel = None;
        self.guest_page_size = None;
    }
    fn sel(&mut self, name: &str) -> Option<u32> {
        match self.queue_sel {
            None => {
                self.v("per_queue_register_without_queue_sel", format!("{} accessed before QueueSel was ever written", name));
                None
            }
            Some(s) => {
                if self.per_op_sel_rule && !self.sel_fresh {
                    self.v("per_queue_register_without_queue_sel", format!("{} accessed without selecting the queue first in this operation (stale QueueSel={})", name, s));
                }
                Some(s)
            }
        }
    }
    fn check(&mut self, off: u64, width: u8, write: bool) -> Option<(&'static str, bool)> {
        if width != 4 || off % 4 != 0 {
            self.v("register_access_width", format!("{}-byte {} at offset {:#x} ({})", width, if write { "write" } else { "read" }, off, reg_name(off & !3)));
            return None;
        }
        let Some(r) = REGS.iter().find(|r| r.0 == off) else {
            self.v("reserved_register_access", format!("{} of reserved offset {:#x}", if write { "write" } else { "read" }, off));
            return None;
        };
        let legal_ver = if self.legacy() { r.3 } else { r.4 };
        if !legal_ver {
            self.v("register_of_other_version", format!("{} of {} ({:#x}) on a version-{} device", if write { "write" } else { "read" }, r.1, off, self.version));
            return None;
        }
        if (write && r.2 == Dirn::R) || (!write && r.2 == Dirn::W) {
            self.v("register_direction", format!("{} of {} register {} ({:#x})", if write { "write" } else { "read" }, if r.2 == Dirn::R { "read-only" } else { "write-only" }, r.1, off));
            return None;
        }
        Some((r.1, r.5))
    }

    fn cfg_read(&mut self, off: u64, width: u8) -> u64 {
        let o = (off - 0x100) as usize;
        let mut st = self.st.borrow_mut();
        st.sched_pub(CfgAccess::Read { off: o, len: width as usize });
        self.cfg_accesses.push((false, o, width as usize));
        evlog::log(Ev::ConfigRead { off: o, len: width as usize });
        let mut v = 0u64;
        for i in 0..width as usize {
            let b = st.config.get(o + i).copied();
            match b {
                Some(b) => v |= (b as u64) << (8 * i),
                None => {
                    drop(st);
                    self.v("config_access_outside_window", format!("{}-byte config read at offset {} beyond the {}-byte window", width, o, self.st.borrow().config.len()));
                    return v;
                }
            }
        }
        v
    }
    fn cfg_write(&mut self, off: u64, width: u8, val: u64) {
        let o = (off - 0x100) as usize;
        let mut st = self.st.borrow_mut();
        st.sched_pub(CfgAccess::Write { off: o, len: width as usize });
        self.cfg_accesses.push((true, o, width as usize));
        evlog::log(Ev::ConfigWrite { off: o, len: width as usize });
        if o + width as usize > st.config.len() {
            let l = st.config.len();
            drop(st);
            self.v("config_access_outside_window", format!("{}-byte config write at offset {} beyond the {}-byte window", width, o, l));
            return;
        }
        let bytes: Vec<u8> = (0..width as usize).map(|i| (val >> (8 * i)) as u8).collect();
        st.config[o..o + width as usize].copy_from_slice(&bytes);
        st.config_writes.push((o, bytes));
    }
}

impl MmioDevice for MmioDev {
    fn read(&mut self, off: u64, width: u8) -> u64 {
        self.accesses += 1;
        if off >= 0x100 {
            return self.cfg_read(off, width);
        }
        let Some((name, perq)) = self.check(off, width, false) else { return 0 };
        let qsel = if perq { self.sel(name) } else { None };
        match off {
            0x000 => self.magic as u64,
            0x004 => self.version as u64,
            0x008 => self.device_id as u64,
            0x00c => self.vendor_id as u64,
            0x010 => {
                let offered = self.st.borrow().offered;
                match self.dev_feat_sel {
                    None => {
                        self.v("features_read_without_select", "DeviceFeatures read before DeviceFeaturesSel was written".into());
                        0
                    }
                    Some(0) => {
                        self.feat_read_lo = Some(offered as u32);
                        offered & 0xffff_ffff
                    }
                    Some(1) => {
                        evlog::log(Ev::ReadFeatures(offered));
                        offered >> 32
                    }
                    Some(_) => 0,
                }
            }
            0x034 => {
                let st = self.st.borrow();
                let q = qsel.unwrap_or(0) as u16;
                let r = *st.max_queue.get(&q).unwrap_or(&st.default_max_queue);
                evlog::log(Ev::MaxQueueSize { q, ret: r });
                r as u64
            }
            0x040 => {
                let r = qsel.and_then(|q| self.q.get(&q)).map(|l| l.pfn).unwrap_or(0);
                let ans = self.st.borrow().queue_used_answer;
                let r = match ans {
                    Some(true) => r.max(1),
                    Some(false) => 0,
                    None => r,
                };
                evlog::log(Ev::QueueUsed { q: qsel.unwrap_or(0) as u16, ret: r != 0 });
                r as u64
            }
            0x044 => {
                let mut r = 0;
                if let Some(q) = qsel {
                    let l = self.q.entry(q).or_default();
                    if l.ready_lag > 0 {
                        l.ready_lag -= 1;
                        r = 1;
                    } else {
                        r = l.ready as u64;
                    }
                }
                let ans = self.st.borrow().queue_used_answer;
                let r = match ans {
                    Some(true) => 1,
                    Some(false) => 0,
                    None => r,
                };
                evlog::log(Ev::QueueUsed { q: qsel.unwrap_or(0) as u16, ret: r != 0 });
                r
            }
            0x060 => self.st.borrow().isr as u64,
            0x070 => self.st.borrow().status as u64,
            0x0fc => {
                if self.legacy() {
                    self.legacy_gen_reads += 1;
                }
                let mut st = self.st.borrow_mut();
                st.sched_pub(CfgAccess::Gen);
                evlog::log(Ev::ConfigGen(st.config_gen));
                st.config_gen as u64
            }
            _ => 0,
        }
    }

    fn write(&mut self, off: u64, width: u8, value: u64) {
        self.accesses += 1;
        self.writes += 1;
        if off >= 0x100 {
            return self.cfg_write(off, width, value);
        }
        let Some((name, perq)) = self.check(off, width, true) else { return };
        let v = value as u32;
        if off == 0x030 {
            self.queue_sel = Some(v);
            self.sel_fresh = true;
            return;
        }
        let qsel = if perq { self.sel(name) } else { None };
        match off {
            0x014 => self.dev_feat_sel = Some(v),
            0x024 => self.drv_feat_sel = Some(v),
            0x020 => match self.drv_feat_sel {
                None => self.v("features_written_without_select", "DriverFeatures written before DriverFeaturesSel".into()),
                Some(0) => self.drv_feat = (self.drv_feat & !0xffff_ffff) | v as u64,
                Some(1) => {
                    self.drv_feat = (self.drv_feat & 0xffff_ffff) | (v as u64) << 32;
                    self.st.borrow_mut().driver_features = Some(self.drv_feat);
                    evlog::log(Ev::WriteFeatures(self.drv_feat));
                }
                Some(_) => {}
            },
            0x028 => {
                self.guest_page_size = Some(v);
                self.st.borrow_mut().guest_page_size = Some(v);
                evlog::log(Ev::GuestPageSize(v));
            }
            0x038 => {
                if let Some(q) = qsel {
                    self.q.entry(q).or_default().num = Some(v);
                }
            }
            0x03c => {
                if let Some(q) = qsel {
                    self.q.entry(q).or_default().align = Some(v);
                }
            }
            0x040 => {
                if let Some(q) = qsel {
                    let gps = self.guest_page_size;
                    let l = *self.q.entry(q).or_default();
                    if v != 0 {
                        match (gps, l.num, l.align) {
                            (Some(ps), Some(num), Some(al)) if num != 0 && al.is_power_of_two() && ps.is_power_of_two() => {
                                let desc = v as u64 * ps as u64;
                                let driver = desc + 16 * num as u64;
                                let device = (driver + 6 + 2 * num as u64 + al as u64 - 1) & !(al as u64 - 1);
                                self.q.get_mut(&q).unwrap().pfn = v;
                                self.st.borrow_mut().queues.insert(q as u16, QueueReg { size: num, desc, driver, device });
                                evlog::log(Ev::QueueSet { q: q as u16, size: num, desc, driver, device });
                            }
                            _ => self.v("queue_ready_before_parameters", format!("QueuePFN={:#x} written with GuestPageSize={:?} QueueNum={:?} QueueAlign={:?}", v, gps, l.num, l.align)),
                        }
                    } else {
                        self.q.get_mut(&q).unwrap().pfn = 0;
                        self.st.borrow_mut().queues.remove(&(q as u16));
                        evlog::log(Ev::QueueUnset { q: q as u16 });
                    }
                }
            }
            0x044 => {
                if let Some(q) = qsel {
                    let l = *self.q.entry(q).or_default();
                    if v == 1 {
                        match (l.num, l.desc_lo, l.desc_hi, l.drv_lo, l.drv_hi, l.dev_lo, l.dev_hi) {
                            (Some(num), Some(a), Some(b), Some(c), Some(d), Some(e), Some(f)) if num != 0 => {
                                let desc = a as u64 | (b as u64) << 32;
                                let driver = c as u64 | (d as u64) << 32;
                                let device = e as u64 | (f as u64) << 32;
                                self.q.get_mut(&q).unwrap().ready = true;
                                self.st.borrow_mut().queues.insert(q as u16, QueueReg { size: num, desc, driver, device });
                                evlog::log(Ev::QueueSet { q: q as u16, size: num, desc, driver, device });
                            }
                            _ => self.v("queue_ready_before_parameters", format!("QueueReady=1 for queue {} with latched parameters {:?}", q, l)),
                        }
                    } else if v == 0 {
                        let lag = self.ready_lag;
                        let e = self.q.get_mut(&q).unwrap();
                        if e.ready {
                            e.ready_lag = lag;
                        }
                        // parameters must be programmed afresh before the queue is made ready again
                        *e = QLatch { ready_lag: e.ready_lag, ..QLatch::default() };
                        self.st.borrow_mut().queues.remove(&(q as u16));
                        evlog::log(Ev::QueueUnset { q: q as u16 });
                    } else {
                        self.v("queue_ready_value", format!("QueueReady written with {}", v));
                    }
                }
            }
            0x050 => {
                let mut st = self.st.borrow_mut();
                st.pending_notify.push(v as u16);
                st.notify_count += 1;
                if v > 0xffff {
                    drop(st);
                    self.v("notify_value", format!("QueueNotify written with {:#x}", v));
                }
                evlog::log(Ev::Notify { q: v as u16 });
            }
            0x064 => {
                let mut st = self.st.borrow_mut();
                st.isr &= !v;
                evlog::log(Ev::AckInterrupt(v));
            }
            0x070 => {
                self.st.borrow_mut().status = v;
                evlog::log(Ev::SetStatus(v));
                if v == 0 {
                    self.reset();
                    let mut st = self.st.borrow_mut();
                    st.queues.clear();
                    st.driver_features = None;
                    st.pending_notify.clear();
                    st.resets += 1;
                }
            }
            0x080 | 0x084 | 0x090 | 0x094 | 0x0a0 | 0x0a4 => {
                if let Some(q) = qsel {
                    let l = self.q.entry(q).or_default();
                    if l.ready {
                        self.viol.push(("queue_address_written_while_ready", format!("{} written while queue {} is ready", name, q)));
                    }
                    let l = self.q.entry(q).or_default();
                    match off {
                        0x080 => l.desc_lo = Some(v),
                        0x084 => l.desc_hi = Some(v),
                        0x090 => l.drv_lo = Some(v),
                        0x094 => l.drv_hi = Some(v),
                        0x0a0 => l.dev_lo = Some(v),
                        _ => l.dev_hi = Some(v),
                    }
                }
            }
            _ => {}
        }
    }
}

pub const MMIO_BASE: u64 = 0x0000_6000_0000_0000;

/// Map a device at a fresh fabricated address; returns (base address, handle).
pub fn map_device(dev: MmioDev, slot: u64, len: u64) -> (u64, Rc<RefCell<MmioDev>>) {
    let base = MMIO_BASE + slot * 0x1_0000;
    let rc = Rc::new(RefCell::new(dev));
    mmio_bus::map(base, len.max(1), rc.clone());
    (base, rc)
}
