//! ModelTransport: a `Transport` implementation that records every call in order and behaves like a
//! well-formed device-side register file.  State is shared with the harness through `Rc<RefCell<>>`.

use crate::evlog::{self, Ev};
use std::cell::RefCell;
use std::collections::BTreeMap;
use std::rc::Rc;
use virtio_drivers::transport::{DeviceStatus, DeviceType, InterruptStatus, Transport};
use virtio_drivers::{Error, PhysAddr, Result};
use zerocopy::{FromBytes, Immutable, IntoBytes};

#[derive(Clone, Copy, Debug, PartialEq, Eq)]
pub struct QueueReg {
    pub size: u32,
    pub desc: u64,
    pub driver: u64,
    pub device: u64,
}

#[derive(Clone, Copy, Debug, PartialEq, Eq)]
pub enum CfgAccess {
    Gen,
    Read { off: usize, len: usize },
    Write { off: usize, len: usize },
}

/// Called before every configuration-space access; may mutate the configuration (version bumps).
pub trait ConfigScheduler {
    fn before(&mut self, access: CfgAccess, config: &mut Vec<u8>, generation: &mut u32);
}

pub struct ModelState {
    pub device_type: DeviceType,
    pub offered: u64,
    pub driver_features: Option<u64>,
    pub status: u32,
    pub legacy: bool,
    pub default_max_queue: u32,
    pub max_queue: BTreeMap<u16, u32>,
    /// Scripted answer for `queue_used` (None = "is it registered?").
    pub queue_used_answer: Option<bool>,
    pub queues: BTreeMap<u16, QueueReg>,
    pub pending_notify: Vec<u16>,
    pub notify_count: u64,
    pub config: Vec<u8>,
    pub config_gen: u32,
    pub scheduler: Option<Box<dyn ConfigScheduler>>,
    pub isr: u32,
    pub dropped: bool,
    pub resets: u32,
    pub config_writes: Vec<(usize, Vec<u8>)>,
    pub guest_page_size: Option<u32>,
    /// PCI-like transports cannot disable a queue: queue_unset is a no-op.
    pub unset_is_noop: bool,
}

impl ModelState {
    pub fn new(device_type: DeviceType, offered: u64) -> Rc<RefCell<ModelState>> {
        Rc::new(RefCell::new(ModelState {
            device_type,
            offered,
            driver_features: None,
            status: 0,
            legacy: false,
            default_max_queue: 32768,
            max_queue: BTreeMap::new(),
            queue_used_answer: None,
            queues: BTreeMap::new(),
            pending_notify: vec![],
            notify_count: 0,
            config: vec![],
            config_gen: 0,
            scheduler: None,
            isr: 0,
            dropped: false,
            resets: 0,
            config_writes: vec![],
            guest_page_size: None,
            unset_is_noop: false,
        }))
    }
    fn reset(&mut self) {
        self.queues.clear();
        self.driver_features = None;
        self.pending_notify.clear();
        self.resets += 1;
    }
    pub fn sched_pub(&mut self, a: CfgAccess) {
        self.sched(a)
    }
    fn sched(&mut self, a: CfgAccess) {
        if let Some(mut s) = self.scheduler.take() {
            s.before(a, &mut self.config, &mut self.config_gen);
            self.scheduler = Some(s);
        }
    }
    pub fn take_notifications(&mut self) -> Vec<u16> {
        std::mem::take(&mut self.pending_notify)
    }
}

pub struct ModelTransport {
    pub st: Rc<RefCell<ModelState>>,
}

impl ModelTransport {
    pub fn new(st: &Rc<RefCell<ModelState>>) -> Self {
        ModelTransport { st: st.clone() }
    }
}

impl Drop for ModelTransport {
    fn drop(&mut self) {
        // Real transports reset the device when dropped; the model does the same.
        let mut s = self.st.borrow_mut();
        s.dropped = true;
        s.status = 0;
        s.reset();
        evlog::log(Ev::TransportDrop);
    }
}

impl Transport for ModelTransport {
    fn device_type(&self) -> DeviceType {
        self.st.borrow().device_type
    }
    fn read_device_features(&mut self) -> u64 {
        let f = self.st.borrow().offered;
        evlog::log(Ev::ReadFeatures(f));
        f
    }
    fn write_driver_features(&mut self, driver_features: u64) {
        self.st.borrow_mut().driver_features = Some(driver_features);
        evlog::log(Ev::WriteFeatures(driver_features));
    }
    fn max_queue_size(&mut self, queue: u16) -> u32 {
        let s = self.st.borrow();
        let r = *s.max_queue.get(&queue).unwrap_or(&s.default_max_queue);
        evlog::log(Ev::MaxQueueSize { q: queue, ret: r });
        r
    }
    fn notify(&mut self, queue: u16) {
        let mut s = self.st.borrow_mut();
        s.pending_notify.push(queue);
        s.notify_count += 1;
        evlog::log(Ev::Notify { q: queue });
    }
    fn get_status(&self) -> DeviceStatus {
        DeviceStatus::from_bits_retain(self.st.borrow().status)
    }
    fn set_status(&mut self, status: DeviceStatus) {
        let mut s = self.st.borrow_mut();
        s.status = status.bits();
        if status.bits() == 0 {
            s.reset();
        }
        evlog::log(Ev::SetStatus(status.bits()));
    }
    fn set_guest_page_size(&mut self, guest_page_size: u32) {
        self.st.borrow_mut().guest_page_size = Some(guest_page_size);
        evlog::log(Ev::GuestPageSize(guest_page_size));
    }
    fn requires_legacy_layout(&self) -> bool {
        self.st.borrow().legacy
    }
    fn queue_set(&mut self, queue: u16, size: u32, descriptors: PhysAddr, driver_area: PhysAddr, device_area: PhysAddr) {
        self.st.borrow_mut().queues.insert(queue, QueueReg { size, desc: descriptors, driver: driver_area, device: device_area });
        evlog::log(Ev::QueueSet { q: queue, size, desc: descriptors, driver: driver_area, device: device_area });
    }
    fn queue_unset(&mut self, queue: u16) {
        let mut s = self.st.borrow_mut();
        if s.unset_is_noop {
            return;
        }
        s.queues.remove(&queue);
        evlog::log(Ev::QueueUnset { q: queue });
    }
    fn queue_used(&mut self, queue: u16) -> bool {
        let s = self.st.borrow();
        let r = s.queue_used_answer.unwrap_or_else(|| s.queues.contains_key(&queue));
        evlog::log(Ev::QueueUsed { q: queue, ret: r });
        r
    }
    fn ack_interrupt(&mut self) -> InterruptStatus {
        let mut s = self.st.borrow_mut();
        let v = s.isr;
        s.isr = 0;
        evlog::log(Ev::AckInterrupt(v));
        InterruptStatus::from_bits_truncate(v)
    }
    fn read_config_generation(&self) -> u32 {
        let mut s = self.st.borrow_mut();
        s.sched(CfgAccess::Gen);
        evlog::log(Ev::ConfigGen(s.config_gen));
        s.config_gen
    }
    fn read_config_space<T: FromBytes + IntoBytes>(&self, offset: usize) -> Result<T> {
        let len = size_of::<T>();
        let mut s = self.st.borrow_mut();
        let end = offset.checked_add(len).ok_or(Error::ConfigSpaceTooSmall)?;
        if end > s.config.len() {
            return Err(Error::ConfigSpaceTooSmall);
        }
        s.sched(CfgAccess::Read { off: offset, len });
        evlog::log(Ev::ConfigRead { off: offset, len });
        Ok(T::read_from_bytes(&s.config[offset..end]).unwrap())
    }
    fn write_config_space<T: IntoBytes + Immutable>(&mut self, offset: usize, value: T) -> Result<()> {
        let len = size_of::<T>();
        let mut s = self.st.borrow_mut();
        let end = offset.checked_add(len).ok_or(Error::ConfigSpaceTooSmall)?;
        if end > s.config.len() {
            return Err(Error::ConfigSpaceTooSmall);
        }
        s.sched(CfgAccess::Write { off: offset, len });
        evlog::log(Ev::ConfigWrite { off: offset, len });
        s.config[offset..end].copy_from_slice(value.as_bytes());
        let bytes = value.as_bytes().to_vec();
        s.config_writes.push((offset, bytes));
        Ok(())
    }
}
