//! PCI function model (configuration space, 6 BARs, command register, capability list) behind the
//! `ConfigurationAccess` trait, and a virtio-pci modern device (common / notify / ISR / device
//! configuration windows) on the MMIO bus.  DESIGN C11, C12, Appendix A.

use crate::evlog::{self, Ev};
use crate::mem::MMIO_VOFF;
use crate::mmio_bus::{self, MmioDevice};
use crate::xport_model::{CfgAccess, ModelState, QueueReg};
use std::cell::RefCell;
use std::collections::BTreeMap;
use std::rc::Rc;
use virtio_drivers::transport::pci::bus::{ConfigurationAccess, DeviceFunction};

#[derive(Clone, Copy, Debug, PartialEq, Eq)]
pub enum BarKind {
    Unimplemented,
    Mem32 { size: u32, prefetch: bool, below_1m: bool },
    Mem64 { size: u64, prefetch: bool },
    /// second half of a 64-bit BAR (never generated directly)
    Upper,
    Io { size: u32, decode16: bool },
    /// reserved memory type 0b11 (invalid)
    MemReserved { size: u32 },
}

#[derive(Clone, Copy, Debug)]
pub struct BarReg {
    pub value: u32,
    pub rw: u32,
    pub ro: u32,
}

#[derive(Clone, Debug)]
pub struct CfgOp {
    pub write: bool,
    pub off: u8,
    pub val: u32,
    pub cmd_before: u16,
}

pub struct PciFn {
    pub df: DeviceFunction,
    pub regs: [u32; 64],
    pub kinds: [BarKind; 6],
    pub bars: [BarReg; 6],
    pub orig_bars: [u32; 6],
    pub cmd_rw: u16,
    pub log: Vec<CfgOp>,
    pub viol: Vec<(&'static str, String)>,
    pub reads: u64,
    pub writes: u64,
    /// Present functions on the bus for enumeration tests: (df -> [vendor/device, class/rev, header dword])
    pub others: BTreeMap<(u8, u8, u8), [u32; 3]>,
    pub log_on: bool,
}

impl PciFn {
    pub fn new(df: DeviceFunction) -> PciFn {
        PciFn {
            df,
            regs: [0; 64],
            kinds: [BarKind::Unimplemented; 6],
            bars: [BarReg { value: 0, rw: 0, ro: 0 }; 6],
            orig_bars: [0; 6],
            cmd_rw: 0x077f, // defined bits 0-6, 8-10
            log: vec![],
            viol: vec![],
            reads: 0,
            writes: 0,
            others: BTreeMap::new(),
            log_on: true,
        }
    }
    pub fn command(&self) -> u16 {
        self.regs[1] as u16
    }
    pub fn set_command(&mut self, c: u16) {
        self.regs[1] = (self.regs[1] & 0xffff_0000) | c as u32;
    }
    pub fn set_status(&mut self, s: u16) {
        self.regs[1] = (self.regs[1] & 0xffff) | (s as u32) << 16;
    }
    /// Install a BAR definition with the given assigned address.
    pub fn set_bar(&mut self, i: usize, kind: BarKind, addr: u64) {
        self.kinds[i] = kind;
        match kind {
            BarKind::Unimplemented | BarKind::Upper => self.bars[i] = BarReg { value: 0, rw: 0, ro: 0 },
            BarKind::Mem32 { size, prefetch, below_1m } => {
                let ro = (below_1m as u32) << 1 | (prefetch as u32) << 3;
                let rw = !(size.wrapping_sub(1)) & 0xffff_fff0;
                self.bars[i] = BarReg { value: (addr as u32 & rw) | ro, rw, ro };
            }
            BarKind::MemReserved { size } => {
                let ro = 0b110;
                let rw = !(size.wrapping_sub(1)) & 0xffff_fff0;
                self.bars[i] = BarReg { value: (addr as u32 & rw) | ro, rw, ro };
            }
            BarKind::Mem64 { size, prefetch } => {
                let ro = 0b100 | (prefetch as u32) << 3;
                let m = !(size.wrapping_sub(1));
                let rw = m as u32 & 0xffff_fff0;
                self.bars[i] = BarReg { value: (addr as u32 & rw) | ro, rw, ro };
                if i < 5 {
                    let rwh = (m >> 32) as u32;
                    self.kinds[i + 1] = BarKind::Upper;
                    self.bars[i + 1] = BarReg { value: (addr >> 32) as u32 & rwh, rw: rwh, ro: 0 };
                }
            }
            BarKind::Io { size, decode16 } => {
                let mut rw = !(size.wrapping_sub(1)) & 0xffff_fffc;
                if decode16 {
                    rw &= 0x0000_ffff;
                }
                self.bars[i] = BarReg { value: (addr as u32 & rw) | 1, rw, ro: 1 };
            }
        }
    }
    pub fn snapshot(&mut self) {
        for i in 0..6 {
            self.orig_bars[i] = self.bars[i].value;
        }
    }
    /// Lay out a capability list; `caps` are (offset, bytes); returns nothing.  Bytes 0/1 of each
    /// capability are id/next and must be supplied by the caller.
    pub fn write_bytes(&mut self, off: usize, bytes: &[u8]) {
        for (i, b) in bytes.iter().enumerate() {
            let o = off + i;
            if o >= 256 {
                break;
            }
            let sh = 8 * (o % 4);
            self.regs[o / 4] = (self.regs[o / 4] & !(0xff << sh)) | (*b as u32) << sh;
        }
    }
    fn is_bar_off(off: u8) -> Option<usize> {
        if (0x10..0x28).contains(&off) && off % 4 == 0 { Some(((off - 0x10) / 4) as usize) } else { None }
    }
    pub fn rd(&mut self, df: DeviceFunction, off: u8) -> u32 {
        self.reads += 1;
        if off % 4 != 0 {
            self.viol.push(("unaligned_config_access", format!("read at {:#x}", off)));
        }
        if df != self.df {
            if let Some(r) = self.others.get(&(df.bus, df.device, df.function)) {
                return match off {
                    0 => r[0],
                    8 => r[1],
                    12 => r[2],
                    _ => 0,
                };
            }
            return 0xffff_ffff;
        }
        let v = match Self::is_bar_off(off) {
            Some(i) => self.bars[i].value,
            None => self.regs[(off / 4) as usize],
        };
        if self.log_on {
            let c = self.command();
            self.log.push(CfgOp { write: false, off, val: v, cmd_before: c });
        }
        v
    }
    pub fn wr(&mut self, df: DeviceFunction, off: u8, val: u32) {
        self.writes += 1;
        if off % 4 != 0 {
            self.viol.push(("unaligned_config_access", format!("write at {:#x}", off)));
        }
        if df != self.df {
            self.viol.push(("write_to_other_function", format!("config write to {:?} offset {:#x}", df, off)));
            return;
        }
        let cmd = self.command();
        if self.log_on {
            self.log.push(CfgOp { write: true, off, val, cmd_before: cmd });
        }
        if let Some(i) = Self::is_bar_off(off) {
            let b = self.bars[i];
            let newv = (val & b.rw) | b.ro;
            // which decode bit covers this register?
            let kind = if self.kinds[i] == BarKind::Upper && i > 0 { self.kinds[i - 1] } else { self.kinds[i] };
            let decode = match kind {
                BarKind::Io { .. } => cmd & 1 != 0,
                BarKind::Unimplemented => false,
                _ => cmd & 2 != 0,
            };
            if decode && newv != self.orig_bars[i] {
                self.viol.push(("bar_changed_while_decoding", format!("BAR{} written with {:#010x} (register becomes {:#010x}, assigned value {:#010x}) while command={:#06x} has decoding enabled", i, val, newv, self.orig_bars[i], cmd)));
            }
            self.bars[i].value = newv;
        } else if off == 4 {
            let c = (val as u16 & self.cmd_rw) | (cmd & !self.cmd_rw);
            // status bits are RW1C; the model has none set that matter
            self.set_command(c);
        } else {
            // everything else in the header / capability area is read-only in this model
            self.viol.push(("write_to_readonly_config_register", format!("config write of {:#010x} to offset {:#x}", val, off)));
        }
    }
}

/// `ConfigurationAccess` handle sharing one `PciFn`.
pub struct ModelCam {
    pub f: Rc<RefCell<PciFn>>,
}
impl ConfigurationAccess for ModelCam {
    fn read_word(&self, device_function: DeviceFunction, register_offset: u8) -> u32 {
        self.f.borrow_mut().rd(device_function, register_offset)
    }
    fn write_word(&mut self, device_function: DeviceFunction, register_offset: u8, data: u32) {
        self.f.borrow_mut().wr(device_function, register_offset, data)
    }
    unsafe fn unsafe_clone(&self) -> Self {
        ModelCam { f: self.f.clone() }
    }
}

/// The same function model reached through the real `MmioCam` (memory-mapped CAM/ECAM on the bus).
pub struct CamWindow {
    pub f: Rc<RefCell<PciFn>>,
    pub ecam: bool,
    pub viol: Vec<(&'static str, String)>,
}
impl CamWindow {
    fn decode(&mut self, off: u64, width: u8) -> Option<(DeviceFunction, u8)> {
        if width != 4 || off % 4 != 0 {
            self.viol.push(("cam_access_width", format!("{}-byte CAM access at {:#x}", width, off)));
            return None;
        }
        let (bdf, reg) = if self.ecam { (off >> 12, off & 0xfff) } else { (off >> 8, off & 0xff) };
        if reg > 0xff {
            return None;
        }
        Some((DeviceFunction { bus: (bdf >> 8) as u8, device: ((bdf >> 3) & 31) as u8, function: (bdf & 7) as u8 }, reg as u8))
    }
}
impl MmioDevice for CamWindow {
    fn read(&mut self, off: u64, width: u8) -> u64 {
        match self.decode(off, width) {
            Some((df, r)) => self.f.borrow_mut().rd(df, r) as u64,
            None => 0xffff_ffff,
        }
    }
    fn write(&mut self, off: u64, width: u8, value: u64) {
        if let Some((df, r)) = self.decode(off, width) {
            self.f.borrow_mut().wr(df, r, value as u32)
        }
    }
}

// ---------------------------------------------------------------------------------------------
// virtio-pci modern device windows

#[derive(Clone, Copy, Debug, Default)]
pub struct PQ {
    pub size: u16,
    pub enable: u16,
    pub notify_off: u16,
    pub desc: u64,
    pub driver: u64,
    pub device: u64,
    pub size_written: bool,
    pub desc_written: u8, // bit0 low, bit1 high
    pub driver_written: u8,
    pub device_written: u8,
}

/// (offset, width, name, readable, writable, per-queue)
const COMMON: &[(u64, u8, &str, bool, bool, bool)] = &[
    (0x00, 4, "device_feature_select", true, true, false),
    (0x04, 4, "device_feature", true, false, false),
    (0x08, 4, "driver_feature_select", true, true, false),
    (0x0c, 4, "driver_feature", true, true, false),
    (0x10, 2, "msix_config", true, true, false),
    (0x12, 2, "num_queues", true, false, false),
    (0x14, 1, "device_status", true, true, false),
    (0x15, 1, "config_generation", true, false, false),
    (0x16, 2, "queue_select", true, true, false),
    (0x18, 2, "queue_size", true, true, true),
    (0x1a, 2, "queue_msix_vector", true, true, true),
    (0x1c, 2, "queue_enable", true, true, true),
    (0x1e, 2, "queue_notify_off", true, false, true),
    (0x20, 8, "queue_desc", true, true, true),
    (0x28, 8, "queue_driver", true, true, true),
    (0x30, 8, "queue_device", true, true, true),
];

pub struct PciVirtio {
    pub st: Rc<RefCell<ModelState>>,
    pub dev_feat_sel: u32,
    pub drv_feat_sel: u32,
    pub drv_feat: u64,
    pub qsel: Option<u16>,
    pub sel_fresh: bool,
    pub per_op_sel_rule: bool,
    pub q: BTreeMap<u16, PQ>,
    pub viol: Vec<(&'static str, String)>,
    pub accesses: u64,
    /// status register keeps returning the old value for this many reads after a reset write
    pub reset_lag: u32,
    reset_pending: u32,
    pub status_reads_after_reset: u32,
    pub default_qsize: u16,
    pub notify_multiplier: u32,
    pub notify_len: u64,
    pub notifications: Vec<(u64, u8, u64)>, // (offset in notify window, width, value)
    pub cfg_accesses: Vec<(bool, usize, usize)>,
    pub isr_reads: u64,
    /// hostile devices: queue_notify_off reported for every queue
    pub notify_off_override: Option<u16>,
}

impl PciVirtio {
    pub fn new(st: &Rc<RefCell<ModelState>>) -> PciVirtio {
        PciVirtio {
            st: st.clone(),
            dev_feat_sel: 0,
            drv_feat_sel: 0,
            drv_feat: 0,
            qsel: None,
            sel_fresh: false,
            per_op_sel_rule: false,
            q: BTreeMap::new(),
            viol: vec![],
            accesses: 0,
            reset_lag: 0,
            reset_pending: 0,
            status_reads_after_reset: 0,
            default_qsize: 256,
            notify_multiplier: 4,
            notify_len: 0,
            notifications: vec![],
            cfg_accesses: vec![],
            isr_reads: 0,
            notify_off_override: None,
        }
    }
    fn v(&mut self, rule: &'static str, d: String) {
        if self.viol.len() < 32 {
            self.viol.push((rule, d));
        }
    }
    pub fn begin_op(&mut self) {
        self.sel_fresh = false;
    }
    pub fn take_viol(&mut self) -> Vec<(&'static str, String)> {
        std::mem::take(&mut self.viol)
    }
    fn qcur(&mut self, name: &str) -> Option<u16> {
        match self.qsel {
            None => {
                self.v("per_queue_field_without_queue_select", format!("{} accessed before queue_select was ever written", name));
                None
            }
            Some(q) => {
                if self.per_op_sel_rule && !self.sel_fresh {
                    self.v("per_queue_field_without_queue_select", format!("{} accessed without writing queue_select first in this operation", name));
                }
                Some(q)
            }
        }
    }
    fn pq(&mut self, q: u16) -> &mut PQ {
        let dq = self.default_qsize;
        let max = self.st.borrow().max_queue.get(&q).copied();
        let no = self.notify_off_override.unwrap_or(q);
        self.q.entry(q).or_insert_with(|| PQ { size: max.map(|m| m.min(65535) as u16).unwrap_or(dq), notify_off: no, ..PQ::default() })
    }
    fn lookup(&mut self, off: u64, width: u8, write: bool) -> Option<(u64, &'static str, bool, u8)> {
        // a field, or one 32-bit half of a 64-bit field
        for f in COMMON {
            if off == f.0 && width == f.1 {
                if (write && !f.4) || (!write && !f.3) {
                    self.v("common_cfg_direction", format!("{} of {}", if write { "write" } else { "read" }, f.2));
                    return None;
                }
                return Some((f.0, f.2, f.5, 0));
            }
            if f.1 == 8 && width == 4 && (off == f.0 || off == f.0 + 4) {
                return Some((f.0, f.2, f.5, if off == f.0 { 1 } else { 2 }));
            }
        }
        self.v("common_cfg_offset_or_width", format!("{}-byte {} at common-cfg offset {:#x} is not a field of virtio_pci_common_cfg", width, if write { "write" } else { "read" }, off));
        None
    }
}

/// Window handles: each maps a BAR sub-range on the bus and forwards to the shared PciVirtio.
pub struct CommonWin(pub Rc<RefCell<PciVirtio>>);
pub struct NotifyWin(pub Rc<RefCell<PciVirtio>>);
pub struct IsrWin(pub Rc<RefCell<PciVirtio>>);
pub struct DevCfgWin(pub Rc<RefCell<PciVirtio>>);

impl MmioDevice for CommonWin {
    fn read(&mut self, off: u64, width: u8) -> u64 {
        let mut d = self.0.borrow_mut();
        d.accesses += 1;
        let Some((base, name, perq, half)) = d.lookup(off, width, false) else { return 0 };
        let q = if perq { d.qcur(name) } else { None };
        let st = d.st.clone();
        match base {
            0x00 => d.dev_feat_sel as u64,
            0x04 => {
                let o = st.borrow().offered;
                match d.dev_feat_sel {
                    0 => o & 0xffff_ffff,
                    1 => {
                        evlog::log(Ev::ReadFeatures(o));
                        o >> 32
                    }
                    _ => 0,
                }
            }
            0x08 => d.drv_feat_sel as u64,
            0x0c => match d.drv_feat_sel {
                0 => d.drv_feat & 0xffff_ffff,
                1 => d.drv_feat >> 32,
                _ => 0,
            },
            0x10 => 0xffff,
            0x12 => 8,
            0x14 => {
                if d.reset_pending > 0 {
                    d.reset_pending -= 1;
                    d.status_reads_after_reset += 1;
                    0x0f
                } else {
                    if st.borrow().status == 0 {
                        d.status_reads_after_reset += 1;
                    }
                    st.borrow().status as u64 & 0xff
                }
            }
            0x15 => {
                let mut s = st.borrow_mut();
                s.sched_pub(CfgAccess::Gen);
                evlog::log(Ev::ConfigGen(s.config_gen & 0xff));
                (s.config_gen & 0xff) as u64
            }
            0x16 => d.qsel.unwrap_or(0) as u64,
            0x18 => {
                let r = q.map(|q| d.pq(q).size).unwrap_or(0);
                evlog::log(Ev::MaxQueueSize { q: q.unwrap_or(0), ret: r as u32 });
                r as u64
            }
            0x1a => 0xffff,
            0x1c => {
                let r = q.map(|q| d.pq(q).enable).unwrap_or(0);
                let ans = st.borrow().queue_used_answer;
                let r = match ans {
                    Some(true) => 1,
                    Some(false) => 0,
                    None => r,
                };
                evlog::log(Ev::QueueUsed { q: q.unwrap_or(0), ret: r != 0 });
                r as u64
            }
            0x1e => q.map(|q| d.pq(q).notify_off).unwrap_or(0) as u64,
            0x20 | 0x28 | 0x30 => {
                let v = q
                    .map(|q| {
                        let p = d.pq(q);
                        match base {
                            0x20 => p.desc,
                            0x28 => p.driver,
                            _ => p.device,
                        }
                    })
                    .unwrap_or(0);
                match half {
                    0 => v,
                    1 => v & 0xffff_ffff,
                    _ => v >> 32,
                }
            }
            _ => 0,
        }
    }
    fn write(&mut self, off: u64, width: u8, value: u64) {
        let mut d = self.0.borrow_mut();
        d.accesses += 1;
        let Some((base, name, perq, half)) = d.lookup(off, width, true) else { return };
        if base == 0x16 {
            d.qsel = Some(value as u16);
            d.sel_fresh = true;
            return;
        }
        let q = if perq { d.qcur(name) } else { None };
        let st = d.st.clone();
        match base {
            0x00 => d.dev_feat_sel = value as u32,
            0x08 => d.drv_feat_sel = value as u32,
            0x0c => match d.drv_feat_sel {
                0 => d.drv_feat = (d.drv_feat & !0xffff_ffff) | (value & 0xffff_ffff),
                1 => {
                    d.drv_feat = (d.drv_feat & 0xffff_ffff) | (value & 0xffff_ffff) << 32;
                    st.borrow_mut().driver_features = Some(d.drv_feat);
                    evlog::log(Ev::WriteFeatures(d.drv_feat));
                }
                _ => {}
            },
            0x10 => {}
            0x14 => {
                let v = value as u32 & 0xff;
                st.borrow_mut().status = v;
                evlog::log(Ev::SetStatus(v));
                if v == 0 {
                    d.reset_pending = d.reset_lag;
                    d.status_reads_after_reset = 0;
                    d.q.clear();
                    d.drv_feat = 0;
                    d.qsel = None;
                    let mut s = st.borrow_mut();
                    s.queues.clear();
                    s.driver_features = None;
                    s.pending_notify.clear();
                    s.resets += 1;
                }
            }
            0x18 => {
                if let Some(q) = q {
                    let p = d.pq(q);
                    p.size = value as u16;
                    p.size_written = true;
                }
            }
            0x1a => {}
            0x1c => {
                if let Some(q) = q {
                    let p = *d.pq(q);
                    if value == 1 {
                        if p.desc_written != 3 || p.driver_written != 3 || p.device_written != 3 || !p.size_written {
                            d.v("queue_enabled_before_parameters", format!("queue_enable=1 for queue {} before all of size/desc/driver/device were written ({:?})", q, p));
                        }
                        d.pq(q).enable = 1;
                        st.borrow_mut().queues.insert(q, QueueReg { size: p.size as u32, desc: p.desc, driver: p.driver, device: p.device });
                        evlog::log(Ev::QueueSet { q, size: p.size as u32, desc: p.desc, driver: p.driver, device: p.device });
                    } else {
                        d.v("queue_enable_value", format!("queue_enable written with {}", value));
                    }
                }
            }
            0x20 | 0x28 | 0x30 => {
                if let Some(q) = q {
                    let p = d.pq(q);
                    if p.enable == 1 {
                        let pp = *p;
                        d.v("queue_address_written_while_enabled", format!("{} written while queue {} is enabled ({:?})", name, q, pp));
                        return;
                    }
                    let (cur, wr): (&mut u64, &mut u8) = match base {
                        0x20 => (&mut p.desc, &mut p.desc_written),
                        0x28 => (&mut p.driver, &mut p.driver_written),
                        _ => (&mut p.device, &mut p.device_written),
                    };
                    match half {
                        0 => {
                            *cur = value;
                            *wr = 3;
                        }
                        1 => {
                            *cur = (*cur & !0xffff_ffff) | (value & 0xffff_ffff);
                            *wr |= 1;
                        }
                        _ => {
                            *cur = (*cur & 0xffff_ffff) | (value & 0xffff_ffff) << 32;
                            *wr |= 2;
                        }
                    }
                }
            }
            _ => {}
        }
    }
}

impl MmioDevice for NotifyWin {
    fn read(&mut self, off: u64, width: u8) -> u64 {
        self.0.borrow_mut().v("notify_window_read", format!("{}-byte read at notify offset {:#x}", width, off));
        0
    }
    fn write(&mut self, off: u64, width: u8, value: u64) {
        let mut d = self.0.borrow_mut();
        d.accesses += 1;
        d.notifications.push((off, width, value));
        if width != 2 {
            d.v("notify_width", format!("{}-byte notify write at offset {:#x}", width, off));
        }
        // which queue has this notify address?
        let mult = d.notify_multiplier as u64;
        let q = value as u16;
        let expect = d.pq(q).notify_off as u64 * mult;
        if off != expect {
            d.v("notify_address", format!("queue {} notified at window offset {:#x}, expected queue_notify_off*multiplier = {:#x}", q, off, expect));
        }
        let mut s = d.st.borrow_mut();
        s.pending_notify.push(q);
        s.notify_count += 1;
        evlog::log(Ev::Notify { q });
    }
}

impl MmioDevice for IsrWin {
    fn read(&mut self, off: u64, width: u8) -> u64 {
        let mut d = self.0.borrow_mut();
        d.accesses += 1;
        d.isr_reads += 1;
        if off != 0 || width != 1 {
            d.v("isr_access", format!("{}-byte ISR read at offset {}", width, off));
        }
        let mut s = d.st.borrow_mut();
        let v = s.isr;
        s.isr = 0;
        evlog::log(Ev::AckInterrupt(v));
        v as u64 & 0xff
    }
    fn write(&mut self, off: u64, width: u8, _value: u64) {
        self.0.borrow_mut().v("isr_write", format!("{}-byte write to ISR offset {}", width, off));
    }
}

impl MmioDevice for DevCfgWin {
    fn read(&mut self, off: u64, width: u8) -> u64 {
        let mut d = self.0.borrow_mut();
        d.accesses += 1;
        let o = off as usize;
        d.cfg_accesses.push((false, o, width as usize));
        let st = d.st.clone();
        let mut s = st.borrow_mut();
        s.sched_pub(CfgAccess::Read { off: o, len: width as usize });
        evlog::log(Ev::ConfigRead { off: o, len: width as usize });
        let mut v = 0u64;
        for i in 0..width as usize {
            match s.config.get(o + i) {
                Some(b) => v |= (*b as u64) << (8 * i),
                None => {
                    let l = s.config.len();
                    drop(s);
                    d.v("config_access_outside_window", format!("{}-byte config read at offset {} beyond the {}-byte window", width, o, l));
                    return v;
                }
            }
        }
        v
    }
    fn write(&mut self, off: u64, width: u8, value: u64) {
        let mut d = self.0.borrow_mut();
        d.accesses += 1;
        let o = off as usize;
        d.cfg_accesses.push((true, o, width as usize));
        let st = d.st.clone();
        let mut s = st.borrow_mut();
        s.sched_pub(CfgAccess::Write { off: o, len: width as usize });
        evlog::log(Ev::ConfigWrite { off: o, len: width as usize });
        if o + width as usize > s.config.len() {
            let l = s.config.len();
            drop(s);
            d.v("config_access_outside_window", format!("{}-byte config write at offset {} beyond the {}-byte window", width, o, l));
            return;
        }
        let bytes: Vec<u8> = (0..width as usize).map(|i| (value >> (8 * i)) as u8).collect();
        s.config[o..o + width as usize].copy_from_slice(&bytes);
        s.config_writes.push((o, bytes));
    }
}

/// Physical window description used both to build the capability list and to map the bus.
#[derive(Clone, Copy, Debug, PartialEq, Eq)]
pub struct Win {
    pub bar: u8,
    pub offset: u32,
    pub length: u32,
}

/// Map a window (given the BAR's assigned physical address) on the bus at its *virtual* address.
pub fn map_window(bar_addr: u64, w: Win, dev: Rc<RefCell<dyn MmioDevice>>) -> u64 {
    let va = bar_addr.wrapping_add(w.offset as u64).wrapping_add(MMIO_VOFF);
    mmio_bus::map(va, w.length as u64, dev);
    va
}

/// Build a `virtio_pci_cap` (16 bytes, or 20 with the notify multiplier).
pub fn virtio_cap(next: u8, cap_len: u8, cfg_type: u8, bar: u8, offset: u32, length: u32, mult: Option<u32>) -> Vec<u8> {
    let mut v = vec![0x09, next, cap_len, cfg_type, bar, 0, 0, 0];
    v.extend_from_slice(&offset.to_le_bytes());
    v.extend_from_slice(&length.to_le_bytes());
    if let Some(m) = mult {
        v.extend_from_slice(&m.to_le_bytes());
    }
    v
}
