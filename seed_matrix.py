#!/usr/bin/env python3
"""Apply every seeded mutant to /repo in turn, run the relevant quick checks, record which fire.
Writes seeded/<id>/meta.json (caught_by, ran) and seeded/MATRIX.md.  /repo is restored after each seed."""
import json, os, subprocess, sys, glob, re
ROOT = os.path.dirname(os.path.abspath(__file__))
REL = {"C01": ["C01", "C02", "C03", "C04"], "C02": ["C02", "C01"], "C03": ["C03", "C19", "C14"], "C04": ["C04", "C01", "C06", "C14"], "C05": ["C05", "C08", "C20"], "C06": ["C06", "C04"],
       "C07": ["C07", "C13", "C11", "C04"], "C08": ["C08", "C16", "C15"], "C09": ["C09", "C08"], "C10": ["C10"], "C11": ["C11", "C13"], "C12": ["C12", "C11"], "C13": ["C13"],
       "C14": ["C14", "C01", "C03", "C08"], "C15": ["C15"], "C16": ["C16"], "C17": ["C17"], "C18": ["C18", "C19"], "C19": ["C19", "C03", "C18"], "C20": ["C20"]}
only = sys.argv[1:]
rows = []
for d in sorted(glob.glob(os.path.join(ROOT, "seeded", "S*"))):
    sid = os.path.basename(d)
    if only and not any(sid.startswith(o) for o in only):
        continue
    meta = json.load(open(os.path.join(d, "meta.json")))
    prop = meta["breaks_property"]
    if subprocess.run(["git", "-C", "/repo", "diff", "--quiet"]).returncode != 0:
        print("repo dirty, abort"); sys.exit(2)
    r = subprocess.run(["git", "-C", "/repo", "apply", os.path.join(d, "patch.diff")], capture_output=True, text=True)
    if r.returncode != 0:
        print(sid, "PATCH DOES NOT APPLY", r.stderr[:200]); meta["caught_by"] = ["(patch does not apply on current HEAD)"]; continue
    caught, ran = [], []
    try:
        for c in REL.get(prop, [prop]):
            out = subprocess.run(["./check", c, "--tier", "quick"], cwd=ROOT, capture_output=True, text=True, timeout=3600, env=dict(os.environ, VERIF_NO_EVIDENCE="1")).stdout
            sigs = sorted(set(re.findall(r"signature: (\S+)", out)))
            ran.append("./check %s --tier quick" % c)
            if sigs:
                caught.append({"check": c, "signatures": sigs[:6]})
    finally:
        subprocess.run(["git", "-C", "/repo", "checkout", "--", "."])
    meta["caught_by"] = caught
    meta["ran"] = ran
    json.dump(meta, open(os.path.join(d, "meta.json"), "w"), indent=1)
    rows.append((sid, prop, caught))
    print(sid, prop, [(c["check"], c["signatures"][:2]) for c in caught], flush=True)
# rebuild the harness on the clean tree again
subprocess.run(["./check", "C06", "--tier", "quick"], cwd=ROOT, capture_output=True)
with open(os.path.join(ROOT, "seeded", "MATRIX.md"), "w") as f:
    f.write("| seed | property | caught by (quick tier) |\n|---|---|---|\n")
    for d in sorted(glob.glob(os.path.join(ROOT, "seeded", "S*"))):
        m = json.load(open(os.path.join(d, "meta.json")))
        cb = "; ".join("%s: %s" % (c["check"], ", ".join(s.split("/", 1)[1] for s in c["signatures"][:3])) for c in m.get("caught_by", []) if isinstance(c, dict)) or "**not caught**"
        f.write("| %s | %s | %s |\n" % (m["id"], m["breaks_property"], cb))
