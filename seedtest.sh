#!/bin/bash
# usage: seedtest.sh <patch.diff> <prop> [<prop>...]   -- apply a seeded mutant to /repo, run quick checks, revert.
set -u
patch=$1; shift
cd /repo || exit 2
if ! git diff --quiet; then echo "repo dirty"; exit 2; fi
git apply "$patch" || { echo "patch does not apply"; exit 2; }
trap 'git -C /repo checkout -- . ' EXIT
for p in "$@"; do
  (cd /verif && ./check $p --tier ${TIER:-quick} 2>&1 | grep -E "VIOLATION|signature|KNOWN|INCONCL|evaluations=" | head -8)
done
